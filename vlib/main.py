"""./vcheck entry point."""
import argparse
import importlib
import json
import os
import sys
import traceback

from vlib import common


def main():
    ap = argparse.ArgumentParser()
    ap.add_argument("pid")
    ap.add_argument("--tier", default=os.environ.get("VERIF_TIER", "quick"), choices=["quick", "thorough"])
    ap.add_argument("--replay", default=None)
    args = ap.parse_args()
    pid = args.pid.upper()
    common.setup_lian()
    try:
        mod = importlib.import_module(f"vlib.checks.{pid.lower()}")
    except ModuleNotFoundError:
        print(f"HARNESS-ERROR no check for {pid}")
        return common.EXIT_HARNESS
    if args.replay:
        with open(args.replay) as f:
            rec = json.load(f)
        try:
            violated, detail = mod.replay(rec)
        except Exception:
            traceback.print_exc()
            return common.EXIT_HARNESS
        print(json.dumps({"violated": violated, "detail": detail}, default=str, indent=1))
        if violated:
            print(f"VIOLATION property={pid} replay={args.replay}")
            return common.EXIT_VIOLATION
        return common.EXIT_OK
    try:
        run = mod.run(args.tier)
        return run.finish()
    except common.HarnessError as e:
        print(f"HARNESS-ERROR property={pid} {e}")
        return common.EXIT_HARNESS
    except Exception:
        traceback.print_exc()
        print(f"HARNESS-ERROR property={pid} unexpected exception in the check")
        return common.EXIT_HARNESS


if __name__ == "__main__":
    sys.exit(main())
