"""In-memory filesystem standing in for os / os.path / shutil inside lian.preparation (C18 symbolic run).

Every method runs untraced on realised arguments (effect-logging stub); pure path algebra is posixpath.
Nodes: path -> ("d",) | ("f", content) | ("l", target).  All keys are normalised absolute paths.
"""
import posixpath

try:
    from crosshair.core import deep_realize
    from crosshair.tracers import NoTracing, is_tracing
except Exception:  # pragma: no cover
    deep_realize = lambda x: x
    NoTracing = None
    is_tracing = lambda: False


class FuelExhausted(Exception):
    pass


def untraced(fn):
    def wrapper(self, *args, **kw):
        if is_tracing():
            args = deep_realize(args)
            kw = deep_realize(kw)
            with NoTracing():
                return fn(self, *args, **kw)
        return fn(self, *args, **kw)
    wrapper.__name__ = fn.__name__
    return wrapper


class FS:
    def __init__(self, cwd="/base", fuel=400):
        self.nodes = {"/": ("d",)}
        self.cwd = cwd
        self.log = []           # (op, real path)
        self.fuel = fuel
        self.ops = 0

    # ---- construction (not logged) ----
    def add_dir(self, p):
        p = posixpath.normpath(p)
        parts = p.strip("/").split("/")
        cur = ""
        for c in parts:
            if not c:
                continue
            cur += "/" + c
            if cur not in self.nodes:
                self.nodes[cur] = ("d",)

    def add_file(self, p, content="x"):
        self.add_dir(posixpath.dirname(p))
        self.nodes[posixpath.normpath(p)] = ("f", content)

    def add_link(self, p, target):
        self.add_dir(posixpath.dirname(p))
        self.nodes[posixpath.normpath(p)] = ("l", target)

    def snapshot(self):
        return dict(self.nodes)

    # ---- helpers ----
    def _tick(self):
        self.ops += 1
        if self.ops > self.fuel:
            raise FuelExhausted(f"more than {self.fuel} filesystem operations")

    def _abs(self, p):
        if not p.startswith("/"):
            p = posixpath.join(self.cwd, p)
        return posixpath.normpath(p)

    def _real(self, p, follow_last=True, depth=0):
        """resolve symlinks component-wise (like realpath; non-existing tails are kept)."""
        if depth > 20:
            return self._abs(p)
        p = self._abs(p)
        parts = [c for c in p.split("/") if c]
        cur = ""
        for i, c in enumerate(parts):
            nxt = cur + "/" + c
            node = self.nodes.get(nxt)
            last = i == len(parts) - 1
            if node and node[0] == "l" and (follow_last or not last):
                tgt = node[1]
                if not tgt.startswith("/"):
                    tgt = posixpath.join(cur or "/", tgt)
                rest = "/".join(parts[i + 1:])
                return self._real(posixpath.join(tgt, rest) if rest else tgt, follow_last, depth + 1)
            cur = nxt
        return cur or "/"

    def _node(self, p, follow_last=True):
        return self.nodes.get(self._real(p, follow_last))

    # ---- os.path ----
    @untraced
    def exists(self, p):
        self._tick()
        return self._node(p) is not None

    @untraced
    def isfile(self, p):
        self._tick()
        n = self._node(p)
        return bool(n and n[0] == "f")

    @untraced
    def isdir(self, p):
        self._tick()
        n = self._node(p)
        return bool(n and n[0] == "d")

    @untraced
    def islink(self, p):
        self._tick()
        n = self._node(p, follow_last=False)
        return bool(n and n[0] == "l")

    @untraced
    def realpath(self, p):
        return self._real(p)

    @untraced
    def abspath(self, p):
        return self._abs(p)

    @untraced
    def relpath(self, p, start=None):
        return posixpath.relpath(self._abs(p), self._abs(start if start is not None else self.cwd))

    # ---- os ----
    @untraced
    def listdir(self, p):
        self._tick()
        r = self._real(p)
        n = self.nodes.get(r)
        if not n or n[0] != "d":
            raise FileNotFoundError(p)
        pref = r.rstrip("/") + "/"
        return sorted(k[len(pref):] for k in self.nodes if k.startswith(pref) and "/" not in k[len(pref):] and k != r)

    @untraced
    def makedirs(self, p, exist_ok=False):
        self._tick()
        r = self._real(p)
        n = self.nodes.get(r)
        if n:
            if n[0] == "d" and exist_ok:
                return
            raise FileExistsError(p)
        parts = [c for c in r.split("/") if c]
        cur = ""
        for c in parts:
            cur += "/" + c
            n = self.nodes.get(cur)
            if n is None:
                self.nodes[cur] = ("d",)
                self.log.append(("mkdir", cur))
            elif n[0] == "f":
                raise NotADirectoryError(cur)
            elif n[0] == "l":
                cur = self._real(cur)

    def walk(self, top):
        """os.walk(topdown=True, followlinks=False): lazily, so that directories created meanwhile are visited."""
        if is_tracing():
            top = deep_realize(top)
        stack = [top]
        while stack:
            d = stack.pop(0)
            try:
                names = self.listdir(d)
            except FileNotFoundError:
                continue
            dirs, files = [], []
            for nm in names:
                full = posixpath.join(d, nm)
                node = self.nodes.get(self._real(full, follow_last=False))
                if node and node[0] == "d":
                    dirs.append(nm)
                elif node and node[0] == "l":
                    tgt = self._node(full)
                    (dirs if tgt and tgt[0] == "d" else files).append(nm)
                else:
                    files.append(nm)
            yield d, dirs, files
            nxt = []
            for nm in dirs:
                full = posixpath.join(d, nm)
                node = self.nodes.get(self._real(full, follow_last=False))
                if node and node[0] == "d":          # symlinked directories are listed but not entered
                    nxt.append(full)
            stack = nxt + stack

    @untraced
    def unlink(self, p):
        self._tick()
        r = self._real(p, follow_last=False)
        n = self.nodes.get(r)
        if not n or n[0] == "d":
            raise FileNotFoundError(p)
        del self.nodes[r]
        self.log.append(("delete", r))

    @untraced
    def rmdir(self, p):
        self._tick()
        r = self._real(p, follow_last=False)
        n = self.nodes.get(r)
        if not n or n[0] != "d":
            raise NotADirectoryError(p)
        pref = r.rstrip("/") + "/"
        if any(k.startswith(pref) for k in self.nodes):
            raise OSError(39, "Directory not empty", p)
        del self.nodes[r]
        self.log.append(("delete", r))

    remove = unlink

    # ---- shutil ----
    @untraced
    def rmtree(self, p, ignore_errors=False, onerror=None):
        self._tick()
        r = self._real(p, follow_last=False)
        n = self.nodes.get(r)
        if not n or n[0] != "d":
            # like shutil.rmtree: a symbolic link (or a file) is refused; with ignore_errors the refusal is silent
            if ignore_errors:
                return
            raise NotADirectoryError(p)
        pref = r.rstrip("/") + "/"
        for k in [k for k in self.nodes if k == r or k.startswith(pref)]:
            del self.nodes[k]
            self.log.append(("delete", k))

    @untraced
    def copy2(self, src, dst):
        self._tick()
        s = self._node(src)
        if not s or s[0] != "f":
            raise FileNotFoundError(src)
        d = self._real(dst)
        dn = self.nodes.get(d)
        if dn and dn[0] == "d":
            d = posixpath.join(d, posixpath.basename(src))
        parent = self.nodes.get(posixpath.dirname(d))
        if not parent or parent[0] != "d":
            raise FileNotFoundError(dst)
        self.nodes[d] = ("f", s[1])
        self.log.append(("write", d))
        return d

    @untraced
    def copytree(self, src, dst):
        self._tick()
        s = self._real(src)
        d = self._real(dst)
        if d in self.nodes:
            raise FileExistsError(dst)
        pref = s.rstrip("/") + "/"
        for k in sorted(k for k in self.nodes if k == s or k.startswith(pref)):
            self._tick()
            nk = d + k[len(s):]
            self.nodes[nk] = self.nodes[k]
            self.log.append(("write", nk))

    def which(self, name):
        return None


class OsPath:
    def __init__(self, fs):
        self._fs = fs
    join = staticmethod(posixpath.join)
    basename = staticmethod(posixpath.basename)
    dirname = staticmethod(posixpath.dirname)
    splitext = staticmethod(posixpath.splitext)
    normpath = staticmethod(posixpath.normpath)
    isabs = staticmethod(posixpath.isabs)
    split = staticmethod(posixpath.split)
    commonprefix = staticmethod(posixpath.commonprefix)
    sep = "/"

    def __getattr__(self, name):
        return getattr(self._fs, name)


class Os:
    def __init__(self, fs):
        self._fs = fs
        self.path = OsPath(fs)
        self.sep = "/"

    def __getattr__(self, name):
        return getattr(self._fs, name)


class Shutil:
    def __init__(self, fs):
        self._fs = fs

    def __getattr__(self, name):
        return getattr(self._fs, name)
