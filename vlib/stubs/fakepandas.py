"""A pure-Python stand-in for exactly the pandas/numpy calls lian.util.data_model.DataModel makes.

Used only inside CrossHair harnesses (real pandas cannot be executed symbolically); every counterexample found
over this stub is replayed on real pandas before it is reported, and the stub itself is validated against real
pandas on a fixed corpus of histories every run (vlib/checks/c16.py).  State is kept in plain lists so that
symbolic cell values can flow through.
"""


class _NP:
    class int64(int):
        pass

    class ndarray(list):
        pass
    nan = float("nan")

    @staticmethod
    def where(mask):
        return ([i for i, m in enumerate(mask) if m],)

    @staticmethod
    def isin(col, targets):
        return [v in targets for v in col]

    @staticmethod
    def append(row, v):
        return list(row) + [v]

    @staticmethod
    def array_equal(a, b):
        return list(a) == list(b)


np = _NP()


class Series:
    def __init__(self, values, index=None, name=None):
        self._v = list(values)
        self.index = list(index) if index is not None else list(range(len(self._v)))
        self.name = name

    @property
    def values(self):
        return list(self._v)

    def __iter__(self):
        return iter(self._v)

    def __len__(self):
        return len(self._v)

    def __ne__(self, other):
        return [not _eq(v, other) for v in self._v]

    def __eq__(self, other):
        return [_eq(v, other) for v in self._v]

    __hash__ = None


def _eq(a, b):
    if a is None or b is None:
        return a is None and b is None and False   # pandas: None/NaN never compares equal
    return a == b


class _Loc:
    def __init__(self, df):
        self.df = df

    def _pos(self, label):
        for i, l in enumerate(self.df.index):
            if l == label:
                return i
        raise KeyError(label)

    def __getitem__(self, key):
        if isinstance(key, tuple):
            label, col = key
            return self.df._rows[self._pos(label)][self.df._col(col)]
        if isinstance(key, (list, set)):
            pos = [self._pos(l) for l in key]
            return self.df._take(pos)
        raise TypeError("unsupported loc key")

    def __setitem__(self, key, value):
        label, col = key
        self.df._rows[self._pos(label)][self.df._col(col)] = value


class _ILoc:
    def __init__(self, df):
        self.df = df

    def __getitem__(self, key):
        if isinstance(key, slice):
            pos = list(range(len(self.df._rows)))[key]
            return self.df._take(pos)
        if isinstance(key, list):
            return self.df._take(key)
        n = len(self.df._rows)
        if key < 0:
            key += n
        if not (0 <= key < n):
            raise IndexError("single positional indexer is out-of-bounds")
        return Series(self.df._rows[key], index=self.df.columns)

    def __setitem__(self, key, value):
        n = len(self.df._rows)
        if key < 0:
            key += n
        if not (0 <= key < n):
            raise IndexError("iloc cannot enlarge its target object")
        value = list(value)
        if len(value) != len(self.df.columns):
            raise ValueError("cannot set a row with mismatched columns")
        self.df._rows[key] = value


class DataFrame:
    def __init__(self, data=None, columns=None):
        if isinstance(data, DataFrame):
            self.columns = list(data.columns)
            self._rows = data._rows
            self.index = data.index
            if columns is not None:
                cols = list(columns)
                self._rows = [[r[data._col(c)] if c in data.columns else None for c in cols] for r in data._rows]
                self.columns = cols
                self.index = list(data.index)
            return
        rows = []
        if data is not None:
            for r in data:
                if isinstance(r, dict):
                    cols = list(columns) if columns is not None else list(r.keys())
                    rows.append([r.get(c) for c in cols])
                    if columns is None:
                        columns = cols
                else:
                    rows.append(list(r))
        self._rows = rows
        if columns is None:
            columns = list(range(len(rows[0]))) if rows else []
        self.columns = list(columns)
        self.index = list(range(len(rows)))

    def _col(self, name):
        for i, c in enumerate(self.columns):
            if c == name:
                return i
        raise KeyError(name)

    def _take(self, positions):
        d = DataFrame()
        d.columns = list(self.columns)
        d._rows = [list(self._rows[p]) for p in positions]
        d.index = [self.index[p] for p in positions]
        return d

    @property
    def values(self):
        return [list(r) for r in self._rows]

    @property
    def loc(self):
        return _Loc(self)

    @property
    def iloc(self):
        return _ILoc(self)

    def __len__(self):
        return len(self._rows)

    def __getitem__(self, key):
        if isinstance(key, str):
            c = self._col(key)
            return Series([r[c] for r in self._rows], index=self.index, name=key)
        if isinstance(key, list):       # boolean mask
            if len(key) != len(self._rows):
                raise ValueError("mask length")
            return self._take([i for i, m in enumerate(key) if m])
        raise TypeError("unsupported key")

    def __setitem__(self, key, value):
        if key in self.columns:
            c = self._col(key)
            for i, r in enumerate(self._rows):
                r[c] = value[i] if isinstance(value, (list, tuple)) else value
        else:
            self.columns.append(key)
            for i, r in enumerate(self._rows):
                r.append(value[i] if isinstance(value, (list, tuple)) else value)

    def copy(self, deep=False):
        return self._take(list(range(len(self._rows))))

    def rename(self, columns=None, inplace=False, copy=False):
        new = [columns.get(c, c) for c in self.columns]
        if inplace:
            self.columns = new
            return None
        d = self.copy()
        d.columns = new
        return d

    def reset_index(self, drop=True, inplace=False):
        if not drop:
            raise NotImplementedError("move index to column is not modelled")
        if inplace:
            self.index = list(range(len(self._rows)))
            return None
        d = self.copy()
        d.index = list(range(len(d._rows)))
        return d

    def fillna(self, value, inplace=False):
        for r in self._rows:
            for i, v in enumerate(r):
                if v is None:
                    r[i] = value


def concat(frames, ignore_index=False, copy=False):
    a = frames[0]
    d = DataFrame()
    d.columns = list(a.columns)
    d._rows = []
    for f in frames:
        if list(f.columns) != d.columns:
            raise NotImplementedError("concat with different columns is not modelled")
        d._rows.extend([list(r) for r in f._rows])
    d.index = list(range(len(d._rows))) if ignore_index else [l for f in frames for l in f.index]
    return d


def notnull(v):
    return v is not None


class _PD:
    DataFrame = DataFrame
    Series = Series
    concat = staticmethod(concat)
    notnull = staticmethod(notnull)


pd = _PD()


# ---- in-memory "feather" files (C15) --------------------------------------------------------------------
FILES = {}                 # path -> (columns, rows, index)
WRITE_LOG = []             # (path, ok)
FAIL_WRITES = []           # indices (0-based count of to_feather calls) that must fail


def reset_files():
    FILES.clear()
    del WRITE_LOG[:]
    del FAIL_WRITES[:]


def _to_feather(self, path):
    n = len(WRITE_LOG)
    if n in FAIL_WRITES:
        WRITE_LOG.append((path, False))
        raise OSError("injected write failure")
    WRITE_LOG.append((path, True))
    FILES[path] = (list(self.columns), [list(r) for r in self._rows])


def read_feather(path):
    if path not in FILES:
        raise FileNotFoundError(path)
    cols, rows = FILES[path]
    d = DataFrame()
    d.columns = list(cols)
    d._rows = [list(r) for r in rows]
    d.index = list(range(len(rows)))
    return d


DataFrame.to_feather = _to_feather
_PD.read_feather = staticmethod(read_feather)


class _OsPathShim:
    """os.path for lian.util.loader inside the symbolic run: exists() answers from FILES."""
    import os.path as _real

    def exists(self, p):
        return p in FILES

    def __getattr__(self, name):
        return getattr(self._real, name)


class OsShim:
    import os as _real
    path = _OsPathShim()

    def __getattr__(self, name):
        return getattr(self._real, name)
