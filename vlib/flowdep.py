"""The weakest reading C11 accepts as a justification of a reported flow, decided with z3.

From lian's own GIR rows of one unit a definite Horn system is generated: flow-insensitive (statement order ignored),
context-insensitive (one set of facts per function, parameters joined over all call sites), object-granular (a container or object
is one cell: whatever is stored in any field/element taints the whole object, reading any field/element of it is tainted),
name-granular for user variables (same-named variables of different functions are one variable; temporaries are per function).
Every choice is the coarser one, so every dependence a finer reading (or an execution) has is a dependence here.

For definite Horn clauses the derivable atoms are exactly the entailed ones, so "argument x of the sink depends on the value produced
by source statement s" is the z3 query  clauses(s) /\\ not T(x)  being unsat; a sat answer carries a model = a labelling of all
variables and objects that respects every dependence, contains the source and leaves x clean.
"""
import ast
import re
import time

import z3


class Unsupported(Exception):
    pass


_IDENT = re.compile(r"^[A-Za-z_%@$][A-Za-z0-9_%@$]*$")


def is_name(tok):
    return isinstance(tok, str) and bool(_IDENT.match(tok)) and tok not in ("True", "False", "None", "true", "false", "null")


def _clean(v):
    if v is None:
        return None
    if isinstance(v, float) and v != v:
        return None
    if isinstance(v, str) and v == "":
        return None
    return v


def _list(v):
    v = _clean(v)
    if v is None:
        return []
    if isinstance(v, (list, tuple)):
        return [str(x) for x in v]
    try:
        out = ast.literal_eval(v)
    except (ValueError, SyntaxError):
        raise Unsupported(f"argument list {v!r}")
    if isinstance(out, dict):
        return [str(x) for x in out.values()]
    return [str(x) for x in out]


SELF_NAMES = ("self", "this", "%this")


class Unit:
    """block structure of the rows: enclosing method / class of every statement, parameters of every method"""

    def __init__(self, rows):
        self.rows = [{k: _clean(v) for k, v in r.items() if _clean(v) is not None} for r in rows]
        self.by_id = {}
        self.block_owner = {}
        self.stmts = []
        for r in self.rows:
            if r["operation"] == "block_start":
                self.block_owner[r["stmt_id"]] = r.get("parent_stmt_id")
            elif r["operation"] != "block_end":
                self.by_id[r["stmt_id"]] = r
                self.stmts.append(r)

    def owner_stmt(self, r):
        p = r.get("parent_stmt_id")
        if p in self.block_owner:
            p = self.block_owner[p]
        return self.by_id.get(p)

    def enclosing(self, r, kinds):
        cur = self.owner_stmt(r)
        while cur is not None and cur["operation"] not in kinds:
            cur = self.owner_stmt(cur)
        return cur

    def method_of(self, r):
        m = self.enclosing(r, ("method_decl",))
        return m["stmt_id"] if m else 0

    def class_of(self, r):
        c = self.enclosing(r, ("class_decl", "method_decl"))
        return c if c is not None and c["operation"] == "class_decl" else None


class Horn:
    def __init__(self, rows):
        self.u = Unit(rows)
        self.clauses = []        # (head atom, [body atoms])
        self.atoms = {}
        self.sites = []
        self.methods = {}        # stmt_id -> dict(row, params, cls)
        self.classes = {}
        self.defined = set()
        self.used = set()
        self._collect()
        self._generate()

    # ---- atoms ------------------------------------------------------------------------------------------------
    def var(self, name, r):
        if name.startswith("%") and name not in SELF_NAMES:
            return ("v", self.u.method_of(r), name)
        if name in SELF_NAMES:
            return ("v", "*", "%self")
        return ("v", "*", name)

    def T(self, node):
        return ("T", node)

    def P(self, node, site):
        return ("P", node, site)

    def add(self, head, *body):
        self.clauses.append((head, list(body)))

    # ---- pass 1: declarations ---------------------------------------------------------------------------------
    def _collect(self):
        u = self.u
        for r in u.stmts:
            op = r["operation"]
            if op == "method_decl":
                params = [p for p in u.stmts if p["operation"] == "parameter_decl" and u.owner_stmt(p) is r]
                cls = u.class_of(r)
                self.methods[r["stmt_id"]] = dict(row=r, params=params, cls=cls["stmt_id"] if cls else None)
                self.defined.add(r.get("name"))
            elif op == "class_decl":
                self.classes[r["stmt_id"]] = dict(row=r)
                self.defined.add(r.get("name"))
            elif op in ("parameter_decl",):
                self.defined.add(r.get("name"))
            elif op in ("import_stmt", "from_import_stmt"):
                raise Unsupported("imports (single-unit reading only)")
            for k in ("target",):
                if is_name(r.get(k)):
                    self.defined.add(r[k])
            if op == "forin_stmt" and is_name(r.get("name")):
                self.defined.add(r["name"])

    def bound_params(self, mid):
        m = self.methods[mid]
        ps = m["params"]
        if m["cls"] is not None and ps and ps[0].get("name") in SELF_NAMES:
            ps = ps[1:]
        for p in ps:
            if "packed" in (p.get("attrs") or ""):
                raise Unsupported("packed parameter")
        return ps

    # ---- pass 2: clauses --------------------------------------------------------------------------------------
    def flow(self, dst, src, *guard):
        """everything src holds/points to, dst holds/points to"""
        self.add(self.T(dst), self.T(src), *guard)
        for s in self.sites:
            self.add(self.P(dst, s), self.P(src, s), *guard)

    def store_into(self, container, value, *guard):
        for s in self.sites:
            self.add(self.T(s), self.P(container, s), self.T(value), *guard)
            for s2 in self.sites:
                self.add(("PC", s, s2), self.P(container, s), self.P(value, s2), *guard)

    def load_from(self, dst, container, *guard):
        self.add(self.T(dst), self.T(container), *guard)
        for s in self.sites:
            self.add(self.T(dst), self.P(container, s), self.T(s), *guard)
            for s2 in self.sites:
                self.add(self.P(dst, s2), self.P(container, s), ("PC", s, s2), *guard)

    def _generate(self):
        u = self.u
        # sites
        for mid in self.methods:
            self.sites.append(("M", mid))
        for cid in self.classes:
            self.sites.append(("C", cid))
        allocs = {}
        for r in u.stmts:
            if r["operation"] in ("call_stmt", "new_object"):
                allocs[r["stmt_id"]] = ("A", r["stmt_id"])
                self.sites.append(("A", r["stmt_id"]))
            elif r["operation"] in ("new_array", "new_record", "new_set"):
                self.sites.append(("L", r["stmt_id"]))
        externs = set()
        for r in u.stmts:
            for k, v in r.items():
                if k in ("name", "operand", "operand2", "source", "receiver_object", "array", "receiver", "value", "receiver_record"):
                    if is_name(v) and v not in self.defined and r["operation"] not in ("method_decl", "class_decl", "parameter_decl",
                                                                                         "variable_decl", "global_stmt", "nonlocal_stmt"):
                        externs.add(v)
            for a in _list(r.get("positional_args")) + _list(r.get("named_args")):
                if is_name(a) and a not in self.defined:
                    externs.add(a)
        for n in sorted(externs):
            self.sites.append(("X", n))
        self.sites.append(("X", "?"))
        # object-level taint: a variable that may refer to a tainted object is tainted
        self.var_nodes = set()
        # declarations are values
        for mid, m in self.methods.items():
            self.add(self.P(self.var(m["row"]["name"], m["row"]), ("M", mid)))
        for cid, c in self.classes.items():
            self.add(self.P(self.var(c["row"]["name"], c["row"]), ("C", cid)))
        for n in sorted(externs):
            self.add(self.P(("v", "*", n), ("X", n)))
        selfnode = ("v", "*", "%self")
        for r in u.stmts:
            op = r["operation"]
            V = lambda k: self.var(r[k], r) if is_name(r.get(k)) else None   # noqa: E731
            if op in ("method_decl", "class_decl", "parameter_decl", "variable_decl", "global_stmt", "nonlocal_stmt", "pass_stmt",
                      "break_stmt", "continue_stmt", "if_stmt", "while_stmt", "for_stmt", "assert_stmt", "del_stmt", "package_stmt",
                      "expression_stmt", "dowhile_stmt"):
                continue
            if op == "assign_stmt":
                t = V("target")
                for k in ("operand", "operand2"):
                    if V(k) is not None and t is not None:
                        self.flow(t, V(k))
            elif op == "return_stmt":
                if V("name") is not None:
                    self.flow(("ret", u.method_of(r)), V("name"))
            elif op in ("new_array", "new_record", "new_set"):
                if V("target") is not None:
                    self.add(self.P(V("target"), ("L", r["stmt_id"])))
            elif op in ("array_write", "array_append", "array_extend", "array_insert"):
                if V("source") is not None and V("array") is not None:
                    self.store_into(V("array"), V("source"))
            elif op in ("record_write", "record_extend"):
                for k in ("value", "source", "key"):
                    if V(k) is not None and V("receiver_record") is not None:
                        self.store_into(V("receiver_record"), V(k))
            elif op == "field_write":
                if V("source") is not None and V("receiver_object") is not None:
                    self.store_into(V("receiver_object"), V("source"))
            elif op in ("array_read", "slice_read"):
                if V("target") is not None and V("array") is not None:
                    self.load_from(V("target"), V("array"))
            elif op == "forin_stmt":
                if V("name") is not None and V("receiver") is not None:
                    self.load_from(V("name"), V("receiver"))
            elif op == "field_read":
                t, o = V("target"), V("receiver_object")
                if t is None or o is None:
                    continue
                self.load_from(t, o)
                for mid, m in self.methods.items():
                    if m["row"].get("name") == r.get("field"):
                        self.add(self.P(t, ("M", mid)))
            elif op in ("call_stmt", "object_call_stmt", "new_object"):
                self._call(r, allocs, selfnode)
            else:
                raise Unsupported(f"operation {op}")
        for r in u.stmts:       # every alloc site of a class is a possible `self` of the methods (coarsest binding)
            pass
        for s in self.sites:
            if s[0] == "A":
                self.add(self.P(selfnode, s))
        # object-level: a variable referring to a tainted object is tainted
        nodes = set()
        for head, body in self.clauses:
            for a in [head] + body:
                if a[0] in ("T", "P") and a[1][0] in ("v", "ret"):
                    nodes.add(a[1])
        for n in nodes:
            for s in self.sites:
                self.add(self.T(n), self.P(n, s), self.T(s))

    def _call(self, r, allocs, selfnode):
        u = self.u
        args = [self.var(a, r) if is_name(a) else None for a in _list(r.get("positional_args"))]
        args += [self.var(a, r) for a in _list(r.get("named_args")) if is_name(a)]
        if r.get("packed_positional_args") or r.get("packed_named_args"):
            raise Unsupported("packed arguments")
        t = self.var(r["target"], r) if is_name(r.get("target")) else ("v", u.method_of(r), f"%drop{r['stmt_id']}")
        op = r["operation"]
        recv = None
        if op == "object_call_stmt":
            recv = self.var(r["receiver_object"], r) if is_name(r.get("receiver_object")) else None
            callees = [(mid, ()) for mid, m in self.methods.items() if m["row"].get("name") == r.get("field")]
            ctor_guards = []
            unknown_guards = [()]      # always also read as an unknown method of an unknown object (list.append, dict.get, ...)
            # a field holding a function value
            f = ("v", u.method_of(r), f"%callee{r['stmt_id']}")
            if recv is not None:
                self.load_from(f, recv)
            callees += [(mid, (self.P(f, ("M", mid)),)) for mid in self.methods]
        else:
            name = r.get("name") if op == "call_stmt" else r.get("data_type")
            if not is_name(name):
                raise Unsupported(f"callee {name!r}")
            f = self.var(name, r)
            callees = [(mid, (self.P(f, ("M", mid)),)) for mid in self.methods]
            ctor_guards = [(cid, (self.P(f, ("C", cid)),)) for cid in self.classes]
            unknown_guards = [(self.P(f, s),) for s in self.sites if s[0] == "X"]
        for mid, guard in callees:
            ps = self.bound_params(mid)
            for i, p in enumerate(ps):
                pn = self.var(p["name"], p)
                for j, a in enumerate(args):
                    if a is not None and (j == i or j >= len(r_pos(r))):      # positional by index; named: any parameter
                        self.flow(pn, a, *guard)
            self.flow(t, ("ret", mid), *guard)
            if recv is not None:
                self.flow(selfnode, recv, *guard)
        for cid, guard in ctor_guards:
            site = allocs[r["stmt_id"]]
            self.add(self.P(t, site), *guard)
            for mid, m in self.methods.items():
                if m["row"].get("name") in ("__init__", "constructor", "%init") or m["row"].get("name") == self.classes[cid]["row"].get("name"):
                    ps = self.bound_params(mid)
                    for i, p in enumerate(ps):
                        for j, a in enumerate(args):
                            if a is not None and (j == i or j >= len(r_pos(r))):
                                self.flow(self.var(p["name"], p), a, *guard)
        # lian's default propagation list names call_stmt/object_call_stmt: a call's result is also read as depending on every
        # argument and on the receiver, whether or not the callee is known (the opaque-call reading is accepted as justification)
        for a in args + [recv]:
            if a is not None:
                self.add(self.T(t), self.T(a))
        for guard in unknown_guards:
            self.add(self.P(t, ("X", "?")), *guard)
            ins = [a for a in args if a is not None] + ([recv] if recv is not None else [])
            for a in ins:
                self.flow(t, a, *guard)
                for b in ins:
                    if b is not a:
                        self.store_into(b, a, *guard)


def r_pos(r):
    return _list(r.get("positional_args"))


class Decider:
    """z3 instance of one unit's Horn system; one push/pop query per (source statement, sink argument)"""

    def __init__(self, rows):
        self.h = Horn(rows)
        self.z = {}
        self.solver = z3.Solver()
        self.queries = 0
        self.solver_s = 0.0
        for head, body in self.h.clauses:
            hb = self.b(head)
            if body:
                self.solver.add(z3.Implies(z3.And([self.b(a) for a in body]), hb))
            else:
                self.solver.add(hb)

    def b(self, atom):
        v = self.z.get(atom)
        if v is None:
            v = z3.Bool(f"a{len(self.z)}")
            self.z[atom] = v
        return v

    def depends(self, source_row, sink_row, arg_token):
        """True iff arg_token at sink_row depends on the value defined by source_row under the reading (z3: unsat)."""
        if not is_name(arg_token):
            return False
        tgt = source_row.get("target")
        if not is_name(tgt):
            return False
        s = self.solver
        t0 = time.time()
        s.push()
        s.add(self.b(("T", self.h.var(tgt, source_row))))
        s.add(z3.Not(self.b(("T", self.h.var(arg_token, sink_row)))))
        res = s.check()
        s.pop()
        self.queries += 1
        self.solver_s += time.time() - t0
        if str(res) == "unknown":
            raise Unsupported("z3 answered unknown")
        return str(res) == "unsat"

    def may_be(self, row, extern_name):
        """may the callee variable of this call refer to the undefined (external) function of that name?"""
        if row.get("name") == extern_name:
            return True
        site = ("X", extern_name)
        if site not in self.h.sites or not is_name(row.get("name")):
            return False
        s = self.solver
        s.push()
        s.add(z3.Not(self.b(("P", self.h.var(row["name"], row), site))))
        res = s.check()
        s.pop()
        self.queries += 1
        return str(res) == "unsat"


_DECIDERS = {}


def decider_for(program):
    """one z3 instance per (program text, statement numbering): the rows do not depend on the rule set"""
    rows = program["rows"]
    key = (program.get("hash"), rows[0]["stmt_id"] if rows else None, len(rows))
    d = _DECIDERS.get(key)
    if d is None:
        d = _DECIDERS[key] = Decider(rows)
    d.queries, d.solver_s = 0, 0.0
    return d


def rule_matches(rule, row, fname, decider, lang="python"):
    if row is None or row.get("operation") != "call_stmt":
        return False
    if rule.get("lang", "python") not in (lang, "%"):
        return False
    if rule.get("unit_name") and rule["unit_name"] != fname:
        return False
    if rule.get("line_num") and int(rule["line_num"]) != int(row.get("start_row", -2)) + 1:
        return False
    return decider.may_be(row, rule["name"])


def judge(program, flows, rules):
    """problems with the reported flows of one program under one rule set: [(flow, text)]; raises Unsupported"""
    d = decider_for(program)
    by = d.h.u.by_id
    out = []
    for (s, k) in sorted(flows):
        rs, rk = by.get(s), by.get(k)
        lang = program.get("lang", "python")
        srules = [r for r in rules if r["kind"] == "source" and rule_matches(r, rs, program["file"], d, lang)]
        krules = [r for r in rules if r["kind"] == "sink" and rule_matches(r, rk, program["file"], d, lang)]
        if not srules:
            out.append(((s, k), f"statement {s} ({describe(rs)}) matches no configured source rule"))
            continue
        if not krules:
            out.append(((s, k), f"statement {k} ({describe(rk)}) matches no configured sink rule"))
            continue
        args = r_pos(rk)
        ok = False
        for r in krules:
            i = r.get("arg", 0)
            if i < len(args) and d.depends(rs, rk, args[i]):
                ok = True
        if not ok:
            des = sorted({r.get("arg", 0) for r in krules})
            out.append(((s, k), f"argument(s) {des} of the sink call at statement {k} ({describe(rk)}) do not depend on the value produced "
                                f"at statement {s} ({describe(rs)}) even flow-, context- and field-insensitively (z3: a clean labelling exists)"))
    return out, d


def describe(r):
    if r is None:
        return "no such statement in this unit"
    return f"line {int(r.get('start_row', -1)) + 1}: {r.get('operation')} {r.get('target', '')} = {r.get('name', '')}({r.get('positional_args', '')})"
