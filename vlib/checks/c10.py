"""C10 — taint completeness: kernel leg (Engine X on the real PathFinder.propagate_taint over every small typed SFG)."""
from vlib import common, xrun
from vlib.checks import taint_common as tc


def run(tier):
    r = common.Run("C10", tier, "model_checking")
    r.encoded.append(common.src_ref("src/lian/taint/taint_analysis.py", "PathFinder.propagate_taint", "_propagate_from_symbol",
                                    "_propagate_from_state", "_propagate_from_stmt", "_init_source_contamination",
                                    "_get_node_tag", "TaintRuleApplier.apply_propagation_rules"))
    r.encoded.append(common.src_ref("src/lian/taint/taint_structs.py", "TaintEnv", "TagBitVectorManager"))
    r.encoded.append(common.src_ref("src/lian/common_structs.py", "StateFlowGraph.add_edge", "SFGNode", "SFGEdge"))
    r.assumptions += [
        "kernel leg only: given a state-flow graph, propagation taints at least the least fixpoint of the documented edge rules "
        "(docs/en/06.taint/6-2.taint.md section 3); whether the semantic phases build the right graph for a program is the "
        "program-level leg (Engine T) and is reported separately when present",
        "symbol ids and state ids are disjoint", "no custom propagation rules (rule_manager.all_propagations empty)",
    ]
    r.outside += ["implicit flows", "graphs beyond the node bound", "source/sink rule matching (see C11)"]
    b = xrun.Batch(r)
    if tier == "quick":
        b.add("propagate_taint taints >= least fixpoint on every SFG (2 symbols,1 state,1 stmt)", tc.M, "check_propagation",
              slices=tc.sfg_slices((2, 1, 1), "complete"), pct=400, ppt=30, twin="check_propagation_reach",
              twin_slice=dict(shape=[2, 1, 1], mode="complete", src=[0], op=[0]), bounds=tc.SFG_BOUNDS)
    else:
        for shape in ((2, 1, 1), (2, 2, 1), (2, 1, 2)):
            b.add(f"propagate_taint taints >= least fixpoint on every SFG {shape}", tc.M, "check_propagation",
                  slices=tc.sfg_slices(shape, "complete") if shape == (2, 1, 1) else
                  [s2 for c in range(2) for s2 in tc.sfg_slices(shape, "complete", extra_fix={"1": [c]})],
                  pct=3000, ppt=30, twin="check_propagation_reach",
                  twin_slice=dict(shape=list(shape), mode="complete", src=[0], op=[0]), bounds=tc.SFG_BOUNDS)
    b.add("propagate_taint vs least fixpoint on the 2-symbol / 3-state template (state inclusion hierarchies)", tc.M,
          "check_propagation", slices=tc.template_slices("complete"), pct=400 if tier == "quick" else 1500, ppt=30,
          bounds=tc.TEMPLATE_BOUNDS)
    b.execute()
    r.add_sample({"graph": "v0 -SYMBOL_IS_USED@1-> stmt0(assign_stmt) -SYMBOL_IS_DEFINED-> v1 -SYMBOL_STATE-> t0", "source": "v0",
                  "rules_taint": {"symbols": [0, 1], "states": [0]}})
    return r


def replay(rec):
    cex = rec["cex"]
    out = xrun.replay_native(tc.M, "check_propagation", cex.get("slice", {}), cex["cex"])
    return bool(out.get("violated")), out
