"""C10 — taint completeness: kernel leg (Engine X on the real PathFinder.propagate_taint over every small typed SFG)."""
from vlib import common, xrun
from vlib.checks import taint_common as tc


def run(tier):
    r = common.Run("C10", tier, "model_checking")
    r.encoded.append(common.src_ref("src/lian/taint/taint_analysis.py", "PathFinder.propagate_taint", "_propagate_from_symbol",
                                    "_propagate_from_state", "_propagate_from_stmt", "_init_source_contamination",
                                    "_get_node_tag", "TaintRuleApplier.apply_propagation_rules"))
    r.encoded.append(common.src_ref("src/lian/taint/taint_structs.py", "TaintEnv", "TagBitVectorManager"))
    r.encoded.append(common.src_ref("src/lian/common_structs.py", "StateFlowGraph.add_edge", "SFGNode", "SFGEdge"))
    r.assumptions += [
        "kernel leg: given a state-flow graph, propagation taints at least the least fixpoint of the documented edge rules "
        "(docs/en/06.taint/6-2.taint.md section 3); whether the whole pipeline reports the flows of a program is the program leg",
        "symbol ids and state ids are disjoint", "no custom propagation rules (rule_manager.all_propagations empty)",
    ]
    r.outside += ["implicit flows", "graphs beyond the node bound", "source/sink rule matching (see C11)"]
    b = xrun.Batch(r)
    if tier == "quick":
        b.add("propagate_taint taints >= least fixpoint on every SFG (2 symbols,1 state,1 stmt)", tc.M, "check_propagation",
              slices=tc.sfg_slices((2, 1, 1), "complete"), pct=400, ppt=30, twin="check_propagation_reach",
              twin_slice=dict(shape=[2, 1, 1], mode="complete", src=[0], op=[0]), bounds=tc.SFG_BOUNDS)
    else:
        for shape in ((2, 1, 1), (2, 2, 1), (2, 1, 2)):
            b.add(f"propagate_taint taints >= least fixpoint on every SFG {shape}", tc.M, "check_propagation",
                  slices=tc.sfg_slices(shape, "complete") if shape == (2, 1, 1) else
                  [s2 for c in range(2) for s2 in tc.sfg_slices(shape, "complete", extra_fix={"1": [c]})],
                  pct=3000, ppt=30, twin="check_propagation_reach",
                  twin_slice=dict(shape=list(shape), mode="complete", src=[0], op=[0]), bounds=tc.SFG_BOUNDS)
    b.add("propagate_taint vs least fixpoint on the 2-symbol / 3-state template (state inclusion hierarchies)", tc.M,
          "check_propagation", slices=tc.template_slices("complete"), pct=400 if tier == "quick" else 1500, ppt=30,
          bounds=tc.TEMPLATE_BOUNDS)
    b.execute()
    program_leg(r, tier)
    r.add_sample({"graph": "v0 -SYMBOL_IS_USED@1-> stmt0(assign_stmt) -SYMBOL_IS_DEFINED-> v1 -SYMBOL_STATE-> t0", "source": "v0",
                  "rules_taint": {"symbols": [0, 1], "states": [0]}})
    return r


TABLES = [("flows", "@taint_flows")]
# open known findings (each gets a slice of its own, in both rule-set legs)
WITNESSES = ("t_global_set_in_callee_then_copied", "t_nested_field_written_in_callee",
             "t_helper_with_sink_through_wrapper_three_calls", "t_closure_returns_captured")


def taint_programs():
    from vlib import progs
    F, N = progs.family_taint()
    strict = [p for p in F if p["name"] not in WITNESSES]
    wit = [p for p in F if p["name"] in WITNESSES]
    return strict, wit


def program_leg(r, tier):
    """Engine T: real `main.py run` with a one-rule-per-kind settings directory; the reference interpreter tracks the value
    produced by source() by identity (through copies, operators, parameters, returns, fields, elements) for all inputs."""
    from vlib import progs
    from vlib.checks import tcommon
    strict, wit = taint_programs()
    r.assumptions.append("program leg: settings = {entry: %unit_init, source: call source, sink: call sink argument 0}; for all unknown "
                         "inputs, whenever the identity-tracked source value reaches argument 0 of a sink call, "
                         "taint/taint_data_flow.json has a flow with those two statement ids")
    tcommon.drive(r, strict + wit, len(strict), "check_taint", "check_taint_reach",
                  "program leg: every observed source->sink arrival is a reported flow, for all inputs", "run", TABLES, tier, chunk=4,
                  settings_files=progs.TAINT_SETTINGS, key="_programs")
    # the same flows must be reported when each rule is written once per file and line it is meant for (unit_name / line_num)
    strict, wit = taint_programs()
    r.assumptions.append("program leg, restricted rules: one source rule per (file, line of a source call) and one sink rule per "
                         "file, restricted by unit_name and line_num; expectations as above")
    tcommon.drive(r, strict + wit, len(strict), "check_taint", None,
                  "program leg (rules restricted to unit and line): every observed source->sink arrival is a reported flow, for all inputs",
                  "run", TABLES, tier, chunk=4, settings_files=restricted_settings(strict + wit), key="_programs_restricted_rules")


def restricted_settings(programs):
    from vlib import progs
    rules = []
    for p in programs:
        fname = p.get("file") or (p["name"] + ".py")
        for n, line in enumerate(p["src"].splitlines(), 1):
            if "source()" in line:
                rules.append(progs.SRC(unit_name=fname, line_num=n))
        rules.append(progs.SNK(unit_name=fname))
    return progs.taint_settings(rules)


def replay(rec):
    cex = rec["cex"]
    if rec["obligation"].startswith("program leg"):
        from vlib import progs
        from vlib.checks import tcommon
        strict, wit = taint_programs()
        settings = restricted_settings(strict + wit) if "restricted" in rec["obligation"] else progs.TAINT_SETTINGS
        return tcommon.replay_program(rec, "check_taint", "run", TABLES, strict + wit, settings_files=settings)
    out = xrun.replay_native(tc.M, "check_propagation", cex.get("slice", {}), cex["cex"])
    return bool(out.get("violated")), out
