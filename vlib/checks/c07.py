"""C07 — every call that can happen at run time is in the computed call graph (Engine T on call_paths_p3)."""
import copy

from vlib import common, progs
from vlib.checks import tcommon

TABLES = [("callpaths", "semantic_p3/call_paths_p3"), ("status", "semantic_p3/stmt_status_p3.bundle*")]


# open known findings: method call on the object returned by a method call; call of a returned module-level function; third
# calling context of one call site; callback field called through self
WITNESSES = ("method_chain", "returned_named_function", "three_contexts_of_one_call_site", "callback_field_called_in_method",
             "import_module_attribute_call", "global_function_name_rebound")


def with_call(p):
    q = copy.deepcopy(p)
    q["src"] = q["src"] + "\nf(1, 2, True)\n"
    return q


def extra_programs():
    P = []
    G = progs.G

    def add(name, lines, helpers="", bounds=None):
        P.append(progs.prog(name, "F-call", lines, helpers=helpers, bounds=bounds))
    add("call_in_both_arms", ["if c:", "    return g(a)", "return h1(b)"], helpers=G + "\ndef h1(v):\n    return v * 2\n")
    add("call_only_in_rare_arm", ["if a == 7:", "    if b == 3:", "        return g(a)", "return 0"], helpers=G)
    add("two_sites_same_callee", ["x = g(a)", "y = g(b)", "return x - y"], helpers=G)
    add("callee_calls_callee", ["return h2(a) + 1"], helpers=G + "\ndef h2(v):\n    return g(v, 1) * 2\n")
    add("stored_function", ["fn = g", "if c:", "    fn = h3", "return fn(a)"], helpers=G + "\ndef h3(v):\n    return v + 100\n")
    add("function_in_list", ["l = [g, h4]", "return l[0](a) - l[1](b)"], helpers=G + "\ndef h4(v):\n    return v * 3\n")
    add("method_calls_method", ["o = A1(a)", "return o.outer(b)"],
        helpers="class A1:\n    def __init__(self, v):\n        self.v = v\n    def inner(self, d):\n        return self.v - d\n"
                "    def outer(self, d):\n        return self.inner(d) * 2\n")
    add("super_method_via_subclass", ["o = B2(a)", "if c:", "    return o.base(b)", "return o.own()"],
        helpers="class A2:\n    def __init__(self, v):\n        self.v = v\n    def base(self, d):\n        return self.v + d\n\n"
                "class B2(A2):\n    def own(self):\n        return self.base(1) - 1\n")
    add("constructor_calls_helper", ["o = A3(a)", "return o.v"],
        helpers=G + "\nclass A3:\n    def __init__(self, v):\n        self.v = g(v)\n")
    add("callback_param", ["return ap2(h5, a) - ap2(g, b)"],
        helpers=G + "\ndef h5(v):\n    return v * 5\n\ndef ap2(fn, v):\n    return fn(v)\n")
    add("callback_by_keyword_unsorted", ["return ap3(x=a, fn=h6) - ap3(fn=g, x=b)"],
        helpers=G + "\ndef h6(v):\n    return v * 6\n\ndef ap3(fn, x):\n    return fn(x)\n")
    add("callback_by_keyword_mixed", ["return ap4(a, z=h7, k=b)"],
        helpers="def h7(v):\n    return v * 7\n\ndef ap4(v, k, z):\n    return z(v + k)\n")
    add("keyword_args_three_unsorted", ["return k3(c2=h8, b2=b, a2=a)"],
        helpers="def h8(v):\n    return v + 8\n\ndef k3(a2, b2, c2):\n    return c2(a2 - b2)\n")
    add("self_recursion_two_sites", ["return fact(a) + fact(b)"], helpers="def fact(n):\n    if n <= 1:\n        return 1\n    return n * fact(n - 1)\n",
        bounds={"a": (0, 3), "b": (0, 2)})
    add("returned_closure_called", ["k = mk2(a)", "return k(b)"],
        helpers="def mk2(n):\n    def inner(v):\n        return v - n\n    return inner\n")
    # round 2 (shapes reported by a seeding agent as fragile)
    add("returned_named_function", ["r = mk3()", "return r(a)"], helpers=G + "\ndef mk3():\n    return g\n")
    add("returned_function_chosen_by_argument", ["r = mk4(c)", "return r(a)"],
        helpers=G + "\ndef h9(v):\n    return v * 9\n\ndef mk4(flag):\n    if flag:\n        return g\n    return h9\n")
    add("callback_field_called_in_method", ["o = A4(g)", "return o.run(a)"],
        helpers=G + "\nclass A4:\n    def __init__(self, fn):\n        self.fn = fn\n    def run(self, v):\n        return self.fn(v)\n")
    add("callback_field_called_outside", ["o = A5(g)", "return o.fn(a)"],
        helpers=G + "\nclass A5:\n    def __init__(self, fn):\n        self.fn = fn\n")
    add("three_contexts_of_one_call_site", ["return wrap(ha) + wrap(hb) + wrap(hc)"],
        helpers="def ha():\n    return 1\n\ndef hb():\n    return 2\n\ndef hc():\n    return 3\n\ndef runit(fn):\n    return fn()\n\n"
                "def wrap(fn):\n    return runit(fn)\n")
    add("two_contexts_of_one_call_site", ["return wrap2(ha2) + wrap2(hb2)"],
        helpers="def ha2():\n    return 1\n\ndef hb2():\n    return 2\n\ndef runit2(fn):\n    return fn()\n\ndef wrap2(fn):\n    return runit2(fn)\n")
    add("same_callee_from_three_sites", ["x = g(a)", "y = g(b)", "z = g(x)", "return x - y + z"], helpers=G)
    add("method_on_object_from_list", ["l = [A6(a), A6(b)]", "return l[0].get() - l[1].get()"],
        helpers="class A6:\n    def __init__(self, v):\n        self.v = v\n    def get(self):\n        return self.v\n")
    add("method_on_object_from_field", ["o = A7(A6b(a))", "return o.inner.get()"],
        helpers="class A6b:\n    def __init__(self, v):\n        self.v = v\n    def get(self):\n        return self.v\n\n"
                "class A7:\n    def __init__(self, i):\n        self.inner = i\n")
    add("inherited_two_levels", ["o = C8(a)", "return o.m(b)"],
        helpers="class A8:\n    def __init__(self, v):\n        self.v = v\n    def m(self, d):\n        return self.v - d\n\nclass B8(A8):\n    pass\n\nclass C8(B8):\n    pass\n")
    RB = "def handler(v):\n    return v + 1\n\ndef fast(v):\n    return v * 2\n"
    add("local_shadowing_a_defined_function", ["handler = fast", "return handler(a)"], helpers=RB)
    add("defined_function_rebound_in_branch", ["h = handler", "if c:", "    h = fast", "return h(a) + handler(b)"], helpers=RB)
    add("global_function_name_rebound", ["return relay(a)"], helpers=RB + "\nhandler = fast\n\ndef relay(v):\n    return handler(v)\n")
    # calls through imports from other analysed files (each program is a directory: main.py + the modules)
    def addm(name, head, lines, modules):
        q = progs.prog(name, "F-call-multi", lines)
        q["src"] = head + "\n" + q["src"]
        q["modules"] = modules
        P.append(q)
    HM = "def g2(v):\n    out(v)\n    return v + 1\n\ndef g3(v):\n    return g2(v) * 2\n"
    addm("import_from_function", "from helper import g2", ["return g2(a)"], {"helper": HM})
    addm("import_from_function_calling_its_neighbour", "from helper import g3", ["if c:", "    return g3(a)", "return 0"], {"helper": HM})
    addm("import_from_with_alias", "from helper import g2 as hh", ["return hh(b)"], {"helper": HM})
    addm("import_from_class", "from helper import K2", ["o = K2(a)", "return o.m(b)"],
         {"helper": "class K2:\n    def __init__(self, v):\n        self.v = v\n    def m(self, d):\n        return self.v - d\n"})
    addm("import_from_two_modules", "from helper import g2\nfrom other import g4", ["return g2(a) - g4(b)"],
         {"helper": HM, "other": "def g4(v):\n    return v * 4\n"})
    addm("imported_function_as_callback", "from helper import g2", ["return ap9(g2, a)"], {"helper": HM + "\n"})
    P[-1]["src"] = P[-1]["src"].replace("def f(", "def ap9(fn, v):\n    return fn(v)\n\ndef f(")
    addm("import_module_attribute_call", "import helper", ["return helper.g2(a)"], {"helper": HM})
    addm("import_reexported", "from middle import g2", ["return g2(a)"], {"middle": "from helper import g2\n", "helper": HM})
    add("overriding_method_chosen_by_branch", ["o = A9(a)", "if c:", "    o = B9(a)", "return o.m(b)"],
        helpers="class A9:\n    def __init__(self, v):\n        self.v = v\n    def m(self, d):\n        return self.v - d\n\n"
                "class B9(A9):\n    def m(self, d):\n        return self.v + d\n")
    return P


def family(tier):
    base = progs.family_fun() + progs.family_cls() + extra_programs() + progs.family_calls_generated(72 if tier == "quick" else 729)
    wit = [p for p in base if p["name"] in WITNESSES]
    base = [p for p in base if p["name"] not in WITNESSES]
    return [with_call(p) for p in base + wit]


def run(tier):
    r = common.Run("C07", tier, "model_checking")
    r.encoded.append(common.src_ref("src/lian/core/global_stmt_states.py", "call descent (through main.py semantic)"))
    r.encoded.append(common.src_ref("src/lian/core/stmt_states.py", "call_stmt / object_call_stmt states (through main.py semantic)"))
    r.assumptions += [
        "per program the solver decides for all entry arguments (all branch decisions): every call event (caller method, call "
        "statement, callee method) the reference interpreter performs, starting from the unit initialiser's call of f and from f "
        "with symbolic arguments, appears as a call site in some path of semantic_p3/call_paths_p3, and (for non-recursive "
        "sites) the callee has statement status rows under the context hash((caller, stmt, callee))",
        "family: direct, keyword/default, nested-argument, closure, returned-function, callback, stored-function, recursion, "
        "mutual recursion, constructor, method, method-chain, inherited and overriding method calls; multi-file: from-import of "
        "functions / classes / aliases / re-exports, imported functions as callbacks, calls through the module object",
        "the interpreter's dispatch is validated against CPython by C01 on the same programs",
    ]
    r.outside += ["star imports, packages with __init__", "getattr/eval, decorators, externs/mock code"]
    programs = family(tier)
    tcommon.drive(r, programs, len(programs) - len(WITNESSES), "check_calls", "check_calls_reach",
                  "every executed call site is in the stored call paths, for all arguments", "semantic", TABLES, tier, chunk=4)
    return r


def replay(rec):
    return tcommon.replay_program(rec, "check_calls", "semantic", TABLES, family("thorough"))
