"""C09 — points-to results are flow-, field- and call-site-sensitive (Engine T: branch-directed execution over ALL control-flow
paths, aggregated, compared two-sidedly with lian's constant sets)."""
import importlib
import json
import os
import tempfile

from vlib import common, progs, tbatch, xrun

M = "vlib.harness.h_prog"
TABLES = [("space", "semantic_p3/s2space_p3.bundle*"), ("status", "semantic_p3/stmt_status_p3.bundle*")]


def family(tier="thorough"):
    return [p for p in progs.family_val() if p.get("exact")] + progs.family_val_ctl(3 if tier == "quick" else 4) + \
        [w for w in progs.val_witnesses_round2() if w["known"].startswith("C09")]       # witnesses of open findings (matched by fingerprint)


def run(tier):
    r = common.Run("C09", tier, "model_checking")
    r.encoded.append(common.src_ref("src/lian/core/stmt_states.py", "assign/field/call transfer functions (through main.py semantic)"))
    r.assumptions += [
        "loop-free programs whose values are constants; the k-th executed if_stmt takes the value of the k-th symbolic decision "
        "variable (branch-directed execution), so CrossHair/z3 exhausts ALL control-flow paths, feasible or not, as the property "
        "quantifies; every path appends the values it defines to an observation file",
        "after exhaustion, for every definition whose lian states are all constants: the set of constants lian holds equals the "
        "set of last values written over all paths (overwritten values absent, other fields/objects untouched, helper results per "
        "call site) - a two-sided comparison; the covering direction for unknown inputs is C08",
        "programs call f(inp(0), inp(1), inp(2)); at most 5 branch decisions per path",
    ]
    r.outside += ["loops", "more than one allocation per variable", "containers (element sets are merged by design)"]
    programs = family(tier)
    batch, info = tbatch.build_batch(programs, cmd="semantic", tables=TABLES)
    r.extra["lian_run"] = {k: info[k] for k in ("rc", "wall_s", "cmd")}
    if info["rc"] != 0:
        r.harness_error(f"lian semantic failed: {info['log_tail'][-400:]}")
        return r
    path = tbatch.save_batch(batch)
    obsdir = tempfile.mkdtemp(prefix=f"lian-verif-obs-{os.getpid()}-")
    try:
        h = importlib.import_module(M)
        h.prepare({"batch": path})
        chunk = 6
        slices = []
        for lo in range(0, len(programs), chunk):
            slices.append(dict(batch=path, range=[lo, min(lo + chunk, len(programs))], skip=[],
                               obsfile=os.path.join(obsdir, f"obs{lo}.jsonl")))
        b = xrun.Batch(r)
        b.add("all control-flow paths executed (branch-directed)", M, "check_exact_paths", slices=slices,
              pct=300 if tier == "quick" else 1200, ppt=30, bounds={"decisions_per_path": 5, "programs_per_slice": chunk})
        n0 = len(r.obligations)
        b.execute()
        exhausted = set()
        for ob in r.obligations[n0:]:
            s = ob.get("slice") or {}
            if ob["status"] == "CONFIRMED":
                exhausted |= set(range(s["range"][0], s["range"][1]))
        observed = {}
        for s in slices:
            if os.path.exists(s["obsfile"]):
                for line in open(s["obsfile"]):
                    rec = json.loads(line)
                    o = observed.setdefault(rec["pidx"], {})
                    for sid, vals in rec["obs"].items():
                        o.setdefault(sid, set()).update(vals)
        n_defs, n_bad = 0, 0
        for i in sorted(exhausted):
            probs = h.exactness_problems(i, observed.get(i, {}))
            n_defs += len(h.value_tables(i))
            for msg in probs[:2]:
                n_bad += 1
                p = programs[i]
                r.report("exactness", {"prog": p["name"], "msg": msg}, f"exact:{p['name']}:{p['hash']}",
                         f"program {p['name']}: {msg}\n{p['src']}")
        r.add_obligation(name="lian's constant sets == union over all control-flow paths (exhausted programs)", engine="T",
                         status="held" if n_bad == 0 and exhausted else ("failed" if n_bad else "inconclusive"),
                         programs=len(exhausted), definitions=n_defs)
        r.counters["states"] += sum(len(v) for o in observed.values() for v in o.values())
        r.extra["programs_generated"] = len(programs)
        r.extra["programs_exhausted"] = len(exhausted)
        for p in (programs[0], programs[-1]):
            r.add_sample({"name": p["name"], "source": p["src"]})
        if not exhausted:
            r.harness_error("vacuity: no program was exhausted")
    finally:
        os.unlink(path)
        import shutil
        shutil.rmtree(obsdir, ignore_errors=True)
    return r


def replay(rec):
    """Native: enumerate all decision vectors of the recorded program and compare again."""
    import itertools
    name = rec["cex"]["prog"]
    allp = {p["name"]: p for p in family()}
    if name not in allp:
        return False, "program no longer in the family"
    batch, info = tbatch.build_batch([allp[name]], cmd="semantic", tables=TABLES)
    path = tbatch.save_batch(batch)
    try:
        h = importlib.import_module(M)
        h.BATCH["programs"] = []
        h.prepare({"batch": path})
        observed = {}
        for dec in itertools.product((False, True), repeat=5):
            obs, used = h.observe_decisions(0, list(dec))
            for sid, vals in obs.items():
                observed.setdefault(str(sid), set()).update(vals)
        probs = h.exactness_problems(0, observed)
    finally:
        os.unlink(path)
    return bool(probs), probs
