"""C16 — table queries reflect current contents (Engine X: DataModel over a pandas stub; GIRBlockViewer directly)."""
from vlib import common, xrun

M = "vlib.harness.h_c16"


def run(tier):
    r = common.Run("C16", tier, "model_checking")
    r.encoded.append(common.src_ref("src/lian/util/data_model.py", "DataModel.*", "Row.*"))
    r.encoded.append(common.src_ref("src/lian/util/gir_block.py", "GIRBlockViewer.*", "BlockRange.*"))
    r.stubs += ["lian.util.data_model.pd/np replaced inside the symbolic run by vlib/stubs/fakepandas.py (the calls DataModel "
                "makes: DataFrame(data, columns), values, index, columns, [], loc, iloc, boolean mask, concat, rename, "
                "reset_index, copy); validated against real pandas on a fixed corpus every run; every counterexample is "
                "replayed on real pandas"]
    r.assumptions += [
        "tables: <=3 rows x 2 columns (stmt_id, b), cells in {missing,0,1,2} (symbolic); written values symbolic in the same domain",
        "operations are applied only with valid labels/positions/columns (what a caller can know from the table)",
        ".values of a mixed-dtype frame is a copy (stub returns copies)",
        "access_column/Column (a pandas.Series subclass) is outside the symbolic run",
    ]
    r.outside += ["dtype coercions, copy-on-write aliasing between a Row and the frame, feather I/O, access_column"]
    # stub validation (native)
    import importlib
    h = importlib.import_module(M)
    bad = h.validate_stub()
    r.add_obligation(name="pandas stub agrees with real pandas on the corpus", engine="concrete",
                     status="held" if not bad else "failed", histories=len(h.CORPUS))
    if bad:
        r.harness_error(f"pandas stub disagrees with real pandas on {len(bad)} corpus histories: {bad[0][:3]}")
    nm = len(h.MUTATORS)
    b = xrun.Batch(r)
    T1 = [0, 1, 1, 2, 0, 0]          # stmt_id 0 twice (a block around row 1), distinct b
    T2 = [1, -1, -1, 2, 1, 1]        # missing cells, duplicate stmt_id 1
    O3 = [0, 1, 2]                   # query-group orders: A,B,C / B,A,C / B only
    groups = [list(range(i, min(i + 3, nm))) for i in range(0, nm, 3)]
    items = []           # (name, func, slices, pct, bounds-extra)
    A5 = list(range(5))
    if tier == "quick":
        sl = [dict(rows=3, n=1, table=T1, muts=[[g]], orders=[[0, 2], O3]) for g in range(1, nm)]
        # mutator 0 on T1: the combined slice regularly ends "explored, not exhausted"; one slice per order pair is exhausted
        sl += [dict(rows=3, n=1, table=T1, muts=[[0]], orders=[[o0], [o1]]) for o0 in (0, 2) for o1 in O3]
        sl += [dict(rows=3, n=1, table=T2, muts=[[g]], orders=[[0, 2], O3]) for g in (0, 5, 9, 10)]
        items.append(("DataModel: fixed table, 1 mutation, written values symbolic", "check_datamodel_t1", sl, 300))
        vl = [5, 6]
    else:
        sl = [dict(rows=3, n=1, table=t, muts=[[g]], orders=[A5, A5]) for t in (T1, T2) for g in range(nm)]
        items.append(("DataModel: fixed table, 1 mutation, written values symbolic", "check_datamodel_t1", sl, 1500))
        sl = [dict(rows=3, n=2, table=t, muts=[[g], list(range(nm))], orders=[[0, 2], [1, 2], [1]])
              for t in (T1, T2) for g in range(nm)]
        items.append(("DataModel: fixed table, 2 mutations, written values symbolic", "check_datamodel_t2", sl, 3000))
        sl = [dict(rows=2, n=1, dom=[-1, 1], muts=[[g]], orders=[O3, O3]) for g in range(nm)]
        items.append(("DataModel: 2x2 table with symbolic cells, 1 mutation", "check_datamodel_c1", sl, 3000))
        vl = [4, 5, 6, 7, 8]
    for name, func, sl, pct in items:
        b.add(name, M, func, slices=sl, pct=pct, ppt=60, twin="check_datamodel_reach",
              twin_slice=dict(rows=3, n=1, table=T1, muts=[[9]], orders=[[0], [1]]),
              bounds={"columns": 2, "cell_domain": "{missing,0,1,2}",
                      "initial tables": "T1=[[0,1],[1,2],[0,0]], T2=[[1,None],[None,2],[1,1]] or all 2x2 over {missing,0,1}",
                      "mutators": [str(m) for m in h.MUTATORS],
                      "query_group_orders": [str(o) for o in h.ORDERS],
                      "queries": "A: len, access(i), iteration; B: query_index_column_value_indices/first on both columns, "
                                 "search_block_start_end_indics, read_block; C: unique_values_of_column"})
    b.add("DataModel: 3-column table, two renames (a column may take over the name another one just gave up), equality queries "
          "on every column before / between / after", M, "check_datamodel_rename",
          slices=[dict(r0=[k]) for k in range(len(h.RENAMES))], pct=300 if tier == "quick" else 1200, ppt=60,
          bounds={"renames": [str(x) for x in h.RENAMES], "cells": "two symbolic cell values in {missing,0,1,2}", "queries": "optional before and between"})
    for L in vl:
        b.add(f"GIRBlockViewer on every well-nested sequence of {L} rows", M, "check_viewer", slices=[dict(len=L)],
              pct=300 if tier == "quick" else 1200, ppt=30, twin="check_viewer_reach",
              bounds={"rows": L, "row_kinds": "stmt / block_start / block_end", "first_id": "1..2"})
    b.execute()
    r.add_sample({"table": [[0, 1], [1, 2], [0, 0]], "history": ["modify_element(0,'stmt_id',2)", "remove_rows('stmt_id',1)"],
                  "encoding": {"cells": [0, 1, 1, 2, 0, 0], "muts": [0, 10], "vals": [2, 0, 1, 0]}})
    return r


def replay(rec):
    cex = rec["cex"]
    func = "check_datamodel_t1" if rec["obligation"].startswith("DataModel") else "check_viewer"
    if "two renames" in rec["obligation"]:
        func = "check_datamodel_rename"
    out = xrun.replay_native(M, func, cex.get("slice", {}), cex["cex"])
    return bool(out.get("violated")), out
