"""C08 — abstract values cover every concrete value; literals are data (Engine T on s2space_p3)."""
from vlib import common, progs
from vlib.checks import tcommon

TABLES = [("space", "semantic_p3/s2space_p3.bundle*"), ("status", "semantic_p3/stmt_status_p3.bundle*")]


def run(tier):
    r = common.Run("C08", tier, "model_checking")
    r.encoded.append(common.src_ref("src/lian/core/stmt_states.py", "transfer functions (through main.py semantic)"))
    r.encoded.append(common.src_ref("src/lian/core/global_stmt_states.py", "call/return state transfer (through main.py semantic)"))
    r.assumptions += [
        "programs call their entry with unknown inputs f(inp(0), inp(1), inp(2)) (inp is an unresolved external for lian, a symbolic "
        "input source for the reference interpreter); the solver decides for all inputs: at every executed definition of a "
        "variable with an int/bool/str value, some state lian holds for the symbol defined at that statement (s2space_p3 through "
        "stmt_status_p3.defined_symbol, union over contexts) has the same constant value or is an explicit unknown state",
        "objects and containers are followed through field/element reads (the values read back are checked), not compared "
        "structurally",
        "family F-val: constants, arithmetic/concatenation on constants, branches, early return, object fields, aliasing by copy "
        "and by parameter, helper calls from several sites, list/dict elements; loop-free",
    ]
    r.outside += ["float constants", "heap shapes deeper than two levels", "the literal-chain kernel of the design (escape_string / "
                  "adjust_constant_string over all short strings) is not built in this round; two witness programs stand for it",
                  "loops"]
    fam = progs.family_val() + progs.family_val_ctl(3 if tier == "quick" else 4)
    wit = progs.val_witnesses() + [w for w in progs.val_witnesses_round2() if not w["known"].startswith("C09")]
    tcommon.drive(r, fam + wit, len(fam), "check_cover", "check_cover_reach", "every concrete value is covered, for all inputs",
                  "semantic", TABLES, tier, chunk=6)
    return r


def replay(rec):
    return tcommon.replay_program(rec, "check_cover", "semantic", TABLES, progs.family_val() + progs.family_val_ctl(4) + progs.val_witnesses() + progs.val_witnesses_round2())
