"""C13 — termination mechanisms (kernels only): (a) taint propagation worklist, (b) statement scheduler, (c) call descent
guard, (d) constant folding cost.  Whole-pipeline running time is a measurement and is outside the claim."""
import ast
import inspect
import textwrap
import time

import z3

from vlib import common, xrun
from vlib.checks import taint_common as tc
from vlib.sengine import Exec, State, cross_check_cvc5

MS = "vlib.harness.h_sched"
FOLD_FP = "constant-folding:pow-shift-unbounded-result"


def descent_guard(r):
    """(c) Engine S on the guard of GlobalStmtStates.compute_target_method_states, taken from the AST."""
    common.setup_lian()
    from lian.config import config as lc
    from lian.core.global_stmt_states import GlobalStmtStates
    src = textwrap.dedent(inspect.getsource(GlobalStmtStates.compute_target_method_states))
    tree = ast.parse(src)
    guard = None
    for node in ast.walk(tree):
        if isinstance(node, ast.If) and any(isinstance(x, ast.Continue) for x in node.body) and \
                "call_site_analyze_counter" in ast.unparse(node.test) and "path_exists" in ast.unparse(node.test):
            guard = node
            break
    if guard is None:
        r.harness_error("descent guard not found in compute_target_method_states (source changed shape)")
        return
    # replace every call by a free variable of the right sort
    calls = []

    class Repl(ast.NodeTransformer):
        def visit_Call(self, node):
            calls.append(ast.unparse(node))
            return ast.copy_location(ast.Name(id=f"__c{len(calls) - 1}", ctx=ast.Load()), node)

        def visit_Compare(self, node):
            if any(isinstance(op, (ast.In, ast.NotIn)) for op in node.ops):
                calls.append(ast.unparse(node))
                return ast.copy_location(ast.Name(id=f"__c{len(calls) - 1}", ctx=ast.Load()), node)
            return self.generic_visit(node)
    test = Repl().visit(guard.test)
    ast.fix_missing_locations(test)
    env = {"__globals__": GlobalStmtStates.compute_target_method_states.__globals__}
    counter = None
    for i, c in enumerate(calls):
        if "count_cycles" in c:
            env[f"__c{i}"] = z3.Int(f"cycles_{i}")
        elif "call_site_analyze_counter" in c:
            counter = z3.Int("counter")
            env[f"__c{i}"] = counter
        else:
            env[f"__c{i}"] = z3.Bool(f"b_{i}")
    if counter is None:
        r.harness_error("the guard no longer reads call_site_analyze_counter")
        return
    ex = Exec(ints_are_words=False)
    (st, skip), = ex.eval(test, State([counter >= 0], env))
    skip = ex.truth(skip)
    bound = lc.MAX_ANALYSIS_ROUND_FOR_CALL_SITE
    # obligation: whenever the guard lets the callee through, the per-call-site counter is still within its bound, so the
    # increment that follows keeps it <= bound + 1: each call site is descended into at most bound + 1 times.
    q = z3.And(counter >= 0, z3.Not(skip), counter + 1 > bound + 1)
    s = z3.Solver()
    s.add(q)
    t0 = time.time()
    res = s.check()
    agrees, other = cross_check_cvc5([q], str(res))
    r.counters["queries"] += 1
    r.counters["states"] += 1
    r.counters["transitions"] += 1
    r.counters["solver_s"] += time.time() - t0
    r.add_obligation(name="(c) descent guard: a call site is descended into at most MAX_ANALYSIS_ROUND_FOR_CALL_SITE+1 times",
                     engine="S", status=str(res), cvc5=other, guard=ast.unparse(guard.test)[:400], free_terms=calls,
                     bounds={"counter": "every int >= 0", "other disjuncts": "free booleans / ints"})
    if agrees is False:
        r.harness_error(f"descent guard: z3 {res}, cvc5 {other}")
    if res == z3.sat:
        m = s.model()
        r.report("(c) descent guard", {"model": str(m)}, "descent-guard:counter-unbounded",
                 f"the guard lets a callee through although the call-site counter already exceeds its bound: {m}")
    r.encoded.append(common.src_ref("src/lian/core/global_stmt_states.py", "GlobalStmtStates.compute_target_method_states (guard)"))


def folding_cost(r):
    """(d) Engine S over a cost model of the operators strict_eval may execute + small-scale replay on the real code."""
    common.setup_lian()
    from lian.util import util as lu
    D = 3                              # literals below 10^D
    K = 8                              # "polynomial": result bits <= K * D * 4 (decimal digit = < 4 bits)
    v1, v2 = z3.Int("v1"), z3.Int("v2")
    lim = 10 ** D
    models = {
        "+": lambda: z3.IntVal(4 * D + 1), "-": lambda: z3.IntVal(4 * D + 1), "*": lambda: z3.IntVal(8 * D),
        # lower bounds on the result's bit length (v1 >= 2): v1 ** v2 >= 2 ** v2, v1 << v2 >= 2 ** v2
        "**": lambda: v2, "<<": lambda: v2,
    }
    witness = None
    t0 = time.time()
    for op, bits in models.items():
        s = z3.Solver()
        s.add(v1 >= 2, v1 < lim, v2 >= 0, v2 < lim, bits() > K * D * 4)
        res = s.check()
        r.counters["queries"] += 1
        r.counters["states"] += 1
        r.counters["transitions"] += 1
        r.add_obligation(name=f"(d) folding cost: result of `v1 {op} v2` stays within {K * D * 4} bits for literals < 10^{D}",
                         engine="S", status="unsat" if res == z3.unsat else "sat",
                         bounds={"D": D, "cost model": "lower bound on bit length: ** and << give >= v2 bits"})
        if res == z3.sat and witness is None:
            m = s.model()
            witness = (op, m.eval(v1, model_completion=True).as_long(), m.eval(v2, model_completion=True).as_long())
    r.counters["solver_s"] += time.time() - t0
    if witness:
        op, a, b = witness
        # replay at small scale on the real evaluation path (no guard between the literal and eval)
        val = lu.strict_eval(f"{a} {op} {b}")
        bits = int(val).bit_length()
        if bits > K * D * 4:
            r.report("(d) folding cost", {"expr": f"{a} {op} {b}", "result_bits": bits, "limit_bits": K * D * 4}, FOLD_FP,
                     f"constant folding executes `{a} {op} {b}` ({bits} result bits for {D}-digit literals): the cost is "
                     f"exponential in the literal length; `x = 7 ** 50000000` folds for minutes and then fails")
        else:
            r.harness_error(f"cost-model witness {witness} does not reproduce: {bits} bits")
    r.encoded.append(common.src_ref("src/lian/util/util.py", "strict_eval"))
    r.encoded.append(common.src_ref("src/lian/core/stmt_states.py", "StmtStates.compute_two_states (no operator/size guard before strict_eval)"))


def run(tier):
    r = common.Run("C13", tier, "model_checking")
    r.encoded.append(common.src_ref("src/lian/taint/taint_analysis.py", "PathFinder.propagate_taint (+helpers)"))
    r.encoded.append(common.src_ref("src/lian/core/prelim_semantics.py", "P2PrelimSemanticAnalysis.analyze_stmts"))
    r.encoded.append(common.src_ref("src/lian/common_structs.py", "SimpleWorkList", "SimpleSet", "CallPath.count_cycles (C19)"))
    r.assumptions += [
        "only the mechanisms meant to bound the analysis are claimed: (a) taint worklist on every SFG in the bound incl. cyclic "
        "ones, (b) the statement scheduler on every single-entry CFG of <= 4 statements with stubbed transfer functions, "
        "(c) the call-descent guard, (d) the cost of constant folding",
        "(b) fuel: 4*n*(max_round+2)+8 analyses and pops; a statement is analysed at most max_round times",
        "(d) cost model (trusted): lower bounds on result bit length per operator; replay at 3-digit scale on util.strict_eval",
    ]
    r.outside += ["whole-pipeline running time and its growth (a measurement, not a solver question)", "cyclic imports, object graphs",
                  "util.add_to_list_with_default_set index growth (a[100000000] = 1)"]
    descent_guard(r)
    folding_cost(r)
    b = xrun.Batch(r)
    b.add("(a) propagate_taint terminates within 8*(nodes+edges+1) worklist pops on every SFG (2 symbols,1 state,1 stmt)", tc.M,
          "check_propagation", slices=tc.sfg_slices((2, 1, 1), "termination", srcs=[0, 2] if tier == "quick" else None),
          pct=400 if tier == "quick" else 2000, ppt=30, bounds=tc.SFG_BOUNDS)
    import importlib
    hs = importlib.import_module(MS)
    n = 4
    npairs = len(hs.edge_pairs(n))
    slices = [dict(n=n, mode="termination", rounds=[2, 3], fix={"0": [a], "1": [b_], "2": [c]})
              for a in (0, 1) for b_ in (0, 1) for c in (0, 1) if a + b_ + c > 0]     # node 1 needs an outgoing edge
    b.add(f"(b) analyze_stmts terminates on every single-entry CFG of {n} statements (rounds 2,3), <= max_round analyses each", MS,
          "check_scheduler", slices=slices, pct=400 if tier == "quick" else 2000, ppt=30, twin="check_scheduler_reach",
          twin_slice=dict(n=n, mode="termination", rounds=[2], fix={"0": [1], "3": [1], "7": [1]}),
          bounds={"statements": n, "edge bits": npairs, "max_round": [2, 3], "transfer functions": "stubbed (no change flags)"})
    b.execute()
    r.add_sample({"cfg": [[1, 2], [2, 3], [3, 2], [2, 4]], "max_round": 2, "obligation": "loop ends, each statement analysed <= 2 times"})
    r.add_sample({"sfg": "v0 <-> v1 symbol-flow cycle with a statement defining v0 from v1", "obligation": "worklist pops bounded"})
    from vlib.checks import c13_programs
    c13_programs.run_leg(r, tier)
    return r


def replay(rec):
    if rec["obligation"].startswith("program leg"):
        from vlib.checks import c13_programs
        return c13_programs.replay(rec)
    cex = rec["cex"]
    ob = rec["obligation"]
    if ob.startswith("(d)"):
        from lian.util import util as lu
        v = lu.strict_eval(cex["expr"])
        return int(v).bit_length() > cex["limit_bits"], {"bits": int(v).bit_length()}
    if ob.startswith("(c)"):
        return True, cex
    mod, func = (tc.M, "check_propagation") if ob.startswith("(a)") else (MS, "check_scheduler")
    out = xrun.replay_native(mod, func, cex.get("slice", {}), cex["cex"])
    return bool(out.get("violated")), out
