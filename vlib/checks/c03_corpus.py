"""C03 corpus leg (concrete, supporting the kernel legs): the real `main.py lang` on the repository's per-language corpora and on the
generated seven-frontend project; the emitted GIR tables are scanned for the well-formedness clauses of the property with a scan
that shares nothing with lian's code.  No quantifier is left for a solver here (the inputs are fixed files); the leg exists because
the clauses are about what the real frontends emit, which the kernel's token grammar does not contain."""
import os
import shutil
import subprocess
import tempfile

from vlib import common, tengine

NON_EXEC = ("import_stmt", "from_import_stmt", "export_stmt", "type_alias_decl", "package_stmt", "include_stmt", "use_stmt",
            "namespace_use_decl", "global_stmt", "nonlocal_stmt", "pass_stmt")
CLASS_LIKE = ("class_decl", "interface_decl", "enum_decl", "record_decl", "struct_decl", "annotation_type_decl", "trait_decl",
              "namespace_decl", "union_decl", "object_decl")
INIT_ATTRS = ("fields", "static_init", "init", "enum_constants", "members", "nested")
CORPORA = ["python", "javascript", "java", "go", "c", "php"]
LANG_OPT = {"python": "python", "javascript": "javascript", "java": "java", "go": "go", "c": "c", "php": "php"}


def num(v):
    if v is None or isinstance(v, bool):
        return None
    if isinstance(v, float):
        if v != v:
            return None
        return int(v) if v == int(v) else None
    if isinstance(v, int):
        return v
    try:
        import numpy as np
        if isinstance(v, np.integer):
            return int(v)
        if isinstance(v, np.floating):
            return None if v != v else (int(v) if v == int(v) else None)
    except Exception:
        pass
    return None


def scan(units, cap=6):
    """units: {path: rows in stored order}.  Returns [(kind, operation, text)] (at most `cap` per kind+operation)."""
    out, counts = [], {}

    def bad(kind, op, text):
        k = (kind, op)
        counts[k] = counts.get(k, 0) + 1
        if counts[k] <= cap:
            out.append((kind, op, text))
    ranges = []
    all_ids = {}
    for path, rows in units.items():
        stack, owner, seen, by_id = [], {}, set(), {}
        ids = []
        for r in rows:
            sid, op, parent = num(r.get("stmt_id")), r.get("operation"), num(r.get("parent_stmt_id"))
            if sid is None:
                bad("id", op, f"{path}: row without stmt_id")
                continue
            ids.append(sid)
            if op == "block_end":
                if not stack or stack[-1] != sid:
                    bad("nesting", op, f"{path}: block_end {sid} does not close the innermost open block ({stack[-1] if stack else None})")
                    if sid in stack:
                        while stack and stack[-1] != sid:
                            stack.pop()
                if stack and stack[-1] == sid:
                    stack.pop()
                if owner.get(sid) != parent:
                    bad("nesting", op, f"{path}: markers of block {sid} disagree on the owner ({owner.get(sid)} / {parent})")
                continue
            if sid in seen:
                bad("id", op, f"{path}: stmt_id {sid} used twice in the unit")
            seen.add(sid)
            if sid in all_ids and all_ids[sid] != path:
                bad("id", op, f"stmt_id {sid} used in {all_ids[sid]} and in {path}")
            all_ids[sid] = path
            want_parent = stack[-1] if stack else 0
            if op == "block_start":
                if sid in owner:
                    bad("nesting", op, f"{path}: block {sid} has two start markers")
                owner[sid] = parent
                if parent not in by_id:
                    bad("owner", op, f"{path}: block {sid} is owned by {parent}, which is no statement before it")
                else:
                    o = by_id[parent]
                    if not any(num(v) == sid for k, v in o.items() if k not in ("stmt_id", "parent_stmt_id")):
                        bad("owner", o.get("operation"), f"{path}: block {sid} is owned by {o.get('operation')} {parent} but no attribute of it names the block")
                    oparent = num(o.get("parent_stmt_id"))
                    if oparent != want_parent:
                        bad("owner", o.get("operation"), f"{path}: block {sid} of {o.get('operation')} {parent} opens inside block {want_parent}, its owner lies in {oparent}")
                stack.append(sid)
                continue
            by_id[sid] = r
            if parent != want_parent:
                bad("parent", op, f"{path}: {op} {sid} has parent {parent}, the enclosing block is {want_parent}")
        if stack:
            bad("nesting", "block_start", f"{path}: blocks {stack} are never closed")
        # attributes that name bodies
        for sid, r in by_id.items():
            for k, v in r.items():
                if k in ("stmt_id", "parent_stmt_id", "unit_id"):
                    continue
                if (k.endswith("body") or k in ("methods", "fields", "parameters")) and num(v) is not None:
                    b = num(v)
                    if b not in owner:
                        bad("attribute", r.get("operation"), f"{path}: {r.get('operation')} {sid}.{k} = {b} is not a block")
                    elif owner[b] != sid:
                        bad("attribute", r.get("operation"), f"{path}: block {b} named by {r.get('operation')} {sid}.{k} is owned by {owner[b]}")
        # executable statements live in a method or in a class initialiser block
        inits = 0
        for sid, r in by_id.items():
            op = r.get("operation") or ""
            if op == "method_decl" and r.get("name") == "%unit_init":
                inits += 1
            if op.endswith("_decl") or op in NON_EXEC:
                continue
            cur, ok, hops = r, False, 0
            while cur is not None and hops < 200:
                hops += 1
                p = num(cur.get("parent_stmt_id"))
                if p in (None, 0):
                    break
                o = by_id.get(owner.get(p))
                if o is None:
                    break
                oop = o.get("operation") or ""
                if oop == "method_decl":
                    ok = True
                    break
                if oop in CLASS_LIKE and any(num(o.get(a)) == p for a in INIT_ATTRS):
                    ok = True
                    break
                cur = o
            if not ok:
                encl = by_id.get(owner.get(num(r.get("parent_stmt_id"))), {}).get("operation", "the unit")
                bad("outside-method", "in_" + str(encl), f"{path}: executable {op} {sid} lies in no method and no class initialiser (directly inside {encl})")
        if inits > 1:
            bad("unit-init", "method_decl", f"{path}: {inits} unit initialisers")
        if ids:
            ranges.append((min(ids), max(ids), path))
    ranges.sort()
    for (a0, a1, pa), (b0, b1, pb) in zip(ranges, ranges[1:]):
        if b0 <= a1:
            bad("id", "range", f"id ranges overlap: {pa} [{a0},{a1}] and {pb} [{b0},{b1}]")
    return out, counts


def run_project(in_dir, langs, timeout=900):
    root = tempfile.mkdtemp(prefix=f"lian-verif-c03-{os.getpid()}-")
    try:
        env = dict(os.environ, PYTHONPATH=common.SRC, PYTHONHASHSEED="0", PYTHONDONTWRITEBYTECODE="1")
        p = subprocess.run([tengine.PY, os.path.join(common.SRC, "lian", "main.py"), "lang", "-f", "-l", langs, "--nomock", in_dir, "-w", "ws"],
                           cwd=root, capture_output=True, text=True, timeout=timeout, env=env)
        run = tengine.LianRun(root, os.path.join(root, "ws", "lian_workspace"), (p.stdout or "") + (p.stderr or ""), p.returncode, 0)
        units = {}
        if p.returncode == 0:
            paths = {}
            import pandas as pd
            ms = os.path.join(run.ws, "frontend", "module_symbols")
            if os.path.exists(ms):
                for _, r in pd.read_feather(ms).iterrows():
                    if r.get("symbol_type") == 1:
                        paths[int(r["unit_id"])] = str(r["unit_path"]).split("/src/", 1)[-1]
            for uid, rows in run.gir().items():
                units[paths.get(uid, str(uid))] = rows
        return p.returncode, run.log[-800:], units
    finally:
        shutil.rmtree(root, ignore_errors=True)


def projects():
    out = []
    for lang in CORPORA:
        d = os.path.join(common.REPO, "tests", "lang_parser", lang)
        if os.path.isdir(d):
            out.append((f"corpus_{lang}", d, LANG_OPT[lang], None))
    return out


def run_leg(r, tier):
    from concurrent.futures import ThreadPoolExecutor
    from vlib.checks import c02
    r.assumptions.append(
        "corpus leg (concrete scan, labelled so): main.py lang on tests/lang_parser/{python,javascript,java,go,c,php} (each a multi-file "
        "project) and on the generated seven-frontend project of C02; clauses scanned: ids unique across the project and id ranges "
        "of files disjoint; one start and one end marker per block, proper nesting; parent = enclosing block; every block is owned "
        "by a statement that precedes it, lies in the block the owner lies in, and is named by one of the owner's attributes; every "
        "body/methods/fields/parameters attribute holding a number names a block owned by that statement; every executable statement "
        "has a method_decl ancestor or lies in an initialiser block of a class-like declaration; at most one %unit_init per file; exit code 0")
    todo = projects()
    # the generated project
    gen = tempfile.mkdtemp(prefix=f"lian-verif-c03gen-{os.getpid()}-")
    try:
        for p in c02.programs():
            path = os.path.join(gen, "g", p["file"])
            os.makedirs(os.path.dirname(path), exist_ok=True)
            with open(path, "w") as f:
                f.write(p["file_src"])
        todo.append(("generated_seven_frontends", os.path.join(gen, "g"), c02.LANG_ARG, None))
        with ThreadPoolExecutor(4) as ex:
            results = list(ex.map(lambda t: (t[0],) + run_project(t[1], t[2]), todo))
    finally:
        shutil.rmtree(gen, ignore_errors=True)
    for name, rc, log, units in results:
        ob = f"corpus leg: GIR of project `{name}` is well-formed"
        if rc != 0:
            r.add_obligation(name=ob, engine="concrete scan", status="violated", exit_code=rc)
            r.report(ob, dict(cex=dict(kind="corpus", project=name, problem="exit"), slice=None), f"corpus:{name}:exit",
                     f"the language phase ended with exit code {rc} on project {name}: {log[-300:]}")
            continue
        problems, counts = scan(units)
        n_rows = sum(len(v) for v in units.values())
        r.add_obligation(name=ob, engine="concrete scan", status="held" if not problems else "violated", files=len(units), rows=n_rows,
                         problems={f"{k[0]}:{k[1]}": v for k, v in counts.items()})
        r.counters["programs"] += len(units)
        seen = set()
        for kind, op, text in problems:
            fp = f"corpus:{name}:{kind}:{op}"
            if fp in seen:
                continue
            seen.add(fp)
            r.report(ob, dict(cex=dict(kind="corpus", project=name, problem=kind, operation=op), slice=None), fp,
                     f"project {name}: {counts[(kind, op)]} x {kind} / {op}; first: {text}")


def replay(rec):
    c = rec["cex"]["cex"]
    todo = {t[0]: t for t in projects()}
    if c["project"] not in todo:
        return False, "the generated project is re-checked by running the check itself"
    t = todo[c["project"]]
    rc, log, units = run_project(t[1], t[2])
    if c["problem"] == "exit":
        return rc != 0, {"exit_code": rc}
    problems, counts = scan(units)
    same = [x[2] for x in problems if x[0] == c["problem"] and x[1] == c.get("operation")]
    return bool(same), {"problems": same[:3]}
