"""C15 — loader round-trips (Engine X: LRUCache; GeneralLoader families over the pandas stand-in with in-memory files)."""
import itertools
import os
import shutil
import tempfile

from vlib import common, xrun

M = "vlib.harness.h_c15"
KNOWN_FAULT_FP = "loader:export:failed-bundle-write-not-reported"


def run(tier):
    r = common.Run("C15", tier, "model_checking")
    r.encoded.append(common.src_ref("src/lian/util/loader.py", "GeneralLoader.*", "UnitLevelLoader.*",
                                    "ScopeIDToAvailableScopeIDsLoader.*"))
    r.encoded.append(common.src_ref("src/lian/util/util.py", "LRUCache.*"))
    r.encoded.append(common.src_ref("src/lian/util/data_model.py", "DataModel (executed, subject of C16)"))
    r.stubs += ["pandas/numpy -> vlib/stubs/fakepandas.py, feather files -> in-memory dict, os.path.exists -> that dict "
                "(symbolic run only; replay uses real pandas, real feather files in a scratch directory)"]
    r.assumptions += [
        "ids in {1,2}(quick)/{1,2,3}; item contents are 1..2 rows whose payload ints are symbolic and unbounded",
        "cache capacities and config.MAX_ROWS from the listed configurations (MAX_ROWS 1..3 forces multi-bundle output)",
        "checkpoint = export(); export_indexing(); fresh loader; restore_indexing(); every saved id read back",
        "one-to-many map loaders and numpy/networkx-backed loaders are outside the symbolic run",
    ]
    r.outside += ["graph/bit-vector/state-space loaders (numpy/networkx objects)", "real feather type coercions",
                  "OneToManyMapLoader re-save of the same key (each key is saved once by its producers)"]
    b = xrun.Batch(r)
    # (i) LRU
    lru_confs = ([dict(n=4, keys=2, vals=1), dict(n=3, keys=3, vals=2)] if tier == "quick"
                 else [dict(n=5, keys=3, vals=2), dict(n=6, keys=2, vals=1)])
    for lc in lru_confs:
        b.add(f"LRUCache == ordered model, histories of {lc['n']} ops over {lc['keys']} keys", M, "check_lru",
              slices=[dict(n=lc["n"], keys=lc["keys"], vals=lc["vals"], first_kind=k, cap=c) for k in range(4) for c in (1, 2, 3)],
              pct=300 if tier == "quick" else 3000, ppt=30, twin="check_lru_reach", twin_slice=dict(n=lc["n"], keys=lc["keys"], vals=lc["vals"]),
              bounds={"operations": lc["n"], "keys": lc["keys"], "values": lc["vals"], "capacity": "1..3"})
    # (ii) loaders
    if tier == "quick":
        caps = [[1, 1, 1], [2, 1, 2], [3, 2, 3]]
        fams = [("unit", 3), ("avail", 3), ("members", 3)]
        ids, lens = 2, [1, 2]
    else:
        caps = [[1, 1, 1], [2, 1, 2], [3, 2, 3], [1, 2, 3], [1, 1, 3], [2, 2, 1]]
        fams = [("unit", 4), ("avail", 4), ("members", 4)]
        ids, lens = 2, [0, 1, 2]
    for fam, n in fams:
        slices = []
        for cp in (caps[:2] if fam == "members" and tier == "quick" else caps):
            for pf in itertools.product(range(4), repeat=2):
                if pf[0] != 0:
                    continue            # a history starts with a save (get/export on an empty loader is the n-1 case)
                slices.append(dict(family=fam, n=n, caps=cp, ids=ids, lens=[1] if fam != "unit" and tier == "quick" else lens,
                                   prefix=list(pf), xdom=[0, 1] if fam != "unit" else None))
        b.add(f"{fam}: get == last save, export/restore round-trip, histories of {n} ops", M, "check_loader", slices=slices,
              pct=400 if tier == "quick" else 3000, ppt=60, twin="check_loader_reach",
              twin_slice=dict(family=fam, n=n, caps=caps[0], ids=ids, lens=lens, prefix=[0]),
              bounds={"operations": n, "ids": ids, "rows_per_item": lens,
                      "payload": "symbolic unbounded ints" if fam == "unit" else "symbolic ints in {0,1} (hashed into sets)",
                      "(item_cache, bundle_cache, MAX_ROWS)": caps})
    # removal (remove_unit_id) in third position after every two-operation prefix, and in second position
    rm = []
    for fam in ("unit", "avail"):
        for cp in caps[:2]:
            for pf in ([0, 0], [0, 1], [0, 2], [0, 3], [0, 4]):
                rm.append(dict(family=fam, n=3 if tier == "quick" else 4, caps=cp, ids=2, lens=[1], prefix=pf, with_remove=True,
                               xdom=[0, 1] if fam != "unit" else None))
    b.add("unit/avail: histories with remove_unit_id: a removed item reads as absent until saved again", M, "check_loader", slices=rm,
          pct=400 if tier == "quick" else 3000, ppt=60,
          bounds={"operations": 3 if tier == "quick" else 4, "kinds": "save/get/export/checkpoint/remove", "(item_cache, bundle_cache, MAX_ROWS)": caps[:2]})
    b.execute()
    fault_leg(r)
    r.add_sample({"family": "UnitLevelLoader", "caps": [1, 1, 1], "history": "save(1,[x]); get(1); save(1,[y]); get(1)"})
    r.add_sample({"family": "ScopeIDToAvailableScopeIDsLoader", "history": "save(1,{1:{x}}); save(2,{1:{y}}); checkpoint; get(2)"})
    return r


def fault_leg(r):
    """(iii) failed write: decided concretely on the real code + real pandas with an unwritable bundle path; the
    solver has nothing to range over here except the payload, so this is a single replayed scenario."""
    import importlib
    h = importlib.import_module(M)
    h.use_stub(False)
    base = tempfile.mkdtemp(prefix="lian-verif-c15f-")
    try:
        bad = os.path.join(base, "no-such-dir", "t")        # bundle files cannot be created here
        reported, ld = h.fault_history("unit", bad, 2, 1, 100, 2, 7, stub=False)
        lost = not os.path.exists(bad + ".bundle0")
    finally:
        shutil.rmtree(base, ignore_errors=True)
    r.add_obligation(name="fault: export() with a failing bundle write is visible to the caller", engine="concrete replay",
                     status="held" if (reported or not lost) else "REFUTED_REPLAYED",
                     scenario="UnitLevelLoader: save(1,[7]); save(2,[8]); export() into a missing directory")
    if lost and not reported:
        r.report("fault", {"scenario": "save(1,[7]); save(2,[8]); export() with unwritable bundle path"}, KNOWN_FAULT_FP,
                 "GeneralLoader.export(): DataModel.save() swallows the write error, export() returns normally, the items are "
                 "marked as exported and dropped from the active bundle")


def replay(rec):
    cex = rec["cex"]
    if rec["obligation"].startswith("fault"):
        r = common.Run("C15", "quick", "model_checking")
        fault_leg(r)
        return bool(r.violations or r.known_hits), "fault scenario re-run"
    func = "check_lru" if rec["obligation"].startswith("LRU") else "check_loader"
    out = xrun.replay_native(M, func, cex.get("slice", {}), cex["cex"])
    return bool(out.get("violated")), out
