"""Shared slicing for the SFG kernel (used by C10, C11, C13)."""
import importlib

M = "vlib.harness.h_taint"


def sfg_slices(shape, mode, extra_fix=None, srcs=None, ops=None, split_slot=0):
    h = importlib.import_module(M)
    nsrc = len(h.sources(tuple(shape)))
    out = []
    for s in (srcs if srcs is not None else range(nsrc)):
        for o in (ops if ops is not None else range(len(h.OPS))):
            nopt = len(h.edge_slots(*shape)[split_slot][4])
            for c in range(nopt):
                fix = dict(extra_fix or {})
                fix[str(split_slot)] = [c]
                out.append(dict(shape=list(shape), mode=mode, src=[s], op=[o], fix=fix))
    return out


SFG_BOUNDS = {
    "nodes": "2 symbols, 1 state, 1 statement (quick); 2+2+1 and 2+1+2 (thorough)",
    "edges": "between each kind-compatible ordered pair: absent or SYMBOL_STATE / SYMBOL_IS_USED@0|1 / SYMBOL_IS_DEFINED / "
             "SYMBOL_FLOW / STATE_INCLUSION; operands of one statement occupy distinct positions",
    "statement kinds": "assign_stmt (propagates), if_stmt (does not), object_call_stmt (receiver write-back)",
    "source": "each symbol, each state, the statement",
    "construction": "real SFGNode/SFGEdge through the real StateFlowGraph.add_edge (nx.DiGraph, weight = SFGEdge)",
}
