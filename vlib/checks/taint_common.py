"""Shared slicing for the SFG kernel (used by C10, C11, C13)."""
import importlib

M = "vlib.harness.h_taint"


def sfg_slices(shape, mode, extra_fix=None, srcs=None, ops=None, split_slot=0):
    h = importlib.import_module(M)
    nsrc = len(h.sources(tuple(shape)))
    out = []
    for s in (srcs if srcs is not None else range(nsrc)):
        for o in (ops if ops is not None else range(len(h.OPS))):
            nopt = len(h.edge_slots(*shape)[split_slot][4])
            for c in range(nopt):
                fix = dict(extra_fix or {})
                fix[str(split_slot)] = [c]
                out.append(dict(shape=list(shape), mode=mode, src=[s], op=[o], fix=fix))
    return out


SFG_BOUNDS = {
    "nodes": "2 symbols, 1 state, 1 statement (quick); 2+2+1 and 2+1+2 (thorough)",
    "edges": "between each kind-compatible ordered pair: absent or SYMBOL_STATE / SYMBOL_IS_USED@0|1 / SYMBOL_IS_DEFINED / "
             "SYMBOL_FLOW / STATE_INCLUSION; operands of one statement occupy distinct positions",
    "statement kinds": "assign_stmt (propagates), if_stmt (does not), object_call_stmt (receiver write-back)",
    "source": "each symbol, each state, the statement",
    "construction": "real SFGNode/SFGEdge through the real StateFlowGraph.add_edge (nx.DiGraph, weight = SFGEdge)",
}


def template_slices(mode):
    """Typed template: 2 symbols (s, q), 3 states, 1 assign statement `q = f(s)` (s used@1, q defined, no symbol flow);
    every symbol->state edge set and every acyclic state-inclusion edge set; source s."""
    h = importlib.import_module(M)
    shape = (2, 3, 1)
    slots = h.edge_slots(*shape)
    fix = {}
    for k, (sk, i, dk, j, opts) in enumerate(slots):
        if sk == "sym" and dk == "stmt":
            fix[str(k)] = [2] if i == 0 else [0]          # s used at position 1, q not used
        elif sk == "stmt" and dk == "sym":
            fix[str(k)] = [1] if j == 1 else [0]          # defines q
        elif sk == "sym" and dk == "sym":
            fix[str(k)] = [0]
        elif sk == "state" and dk == "state" and i > j:
            fix[str(k)] = [0]                             # inclusion hierarchies are acyclic here: parent index < child index
    free_state_slots = [k for k, (sk, i, dk, j, opts) in enumerate(slots) if sk == "sym" and dk == "state"]
    out = []
    for a in (0, 1):
        for b in (0, 1):
            for c in (0, 1):
                f2 = dict(fix)
                f2[str(free_state_slots[0])] = [a]
                f2[str(free_state_slots[1])] = [b]
                f2[str(free_state_slots[2])] = [c]
                out.append(dict(shape=list(shape), mode=mode, src=[0], op=[0], fix=f2))
    return out


TEMPLATE_BOUNDS = {"template": "symbols s,q; 3 states; statement q = f(s); all 2^6 symbol->state edge sets x all 2^3 acyclic "
                               "state-inclusion edge sets; source s", "graphs": 512}
