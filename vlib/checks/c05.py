"""C05 — names are bound to the declaration selected by lexical scoping (Engine T, binding observed along executions)."""
from vlib import common, progs, xrun
from vlib.checks import tcommon

MK = "vlib.harness.h_c05"

TABLES = [("space", "semantic_p3/s2space_p3.bundle*"), ("space1", "semantic_p1/s2space_p1.bundle*")]


def run(tier):
    r = common.Run("C05", tier, "translation_validation")
    r.encoded.append(common.src_ref("src/lian/basics/scope_hierarchy.py", "(through main.py semantic)"))
    r.encoded.append(common.src_ref("src/lian/core/resolver.py", "Resolver.resolve_symbol_source_decl (through main.py semantic)"))
    r.encoded.append(common.src_ref("src/lian/basics/stmt_def_use_analysis.py", "(through main.py semantic)"))
    r.assumptions += [
        "per program the solver decides for all inputs (all branch decisions): at every executed occurrence of an identifier, the "
        "declaration lian resolves it to (symbol_id in semantic_p1/s2space_p1 and semantic_p3/s2space_p3 for that statement and "
        "name) is the declaration owning the storage cell the reference interpreter reads or writes under Python's scoping rules "
        "(parameter, local, enclosing function, module; global/nonlocal)",
        "Python, single file; family F-scope: shadowing by parameter/local/inner function, closures (1 and 2 levels), global and "
        "nonlocal writes, sibling locals, names used only in a branch, methods reading globals / shadowing them by parameters; "
        "generated: a name assigned in every non-empty subset of {module, f, inner, inner-inner} and read at every level where visible",
        "the renaming clause of the property is a relation between runs (not addressed); class attributes are judged as fields",
    ]
    r.outside += ["JavaScript let/const/var at program level", "import module / star imports, occurrences inside the imported files"]
    kernel_leg(r, tier)
    fam = progs.family_scope() + progs.family_scope_generated() + progs.family_scope_imports()
    wit = progs.scope_witnesses()
    tcommon.drive(r, fam + wit, len(fam), "check_scope", "check_scope_reach", "every executed occurrence is bound to the right declaration",
                  "semantic", TABLES, tier, chunk=4)
    return r


def kernel_leg(r, tier):
    """Engine X: the real summarize_symbol_decls + resolve_symbol_source_decl on every scope forest of three scopes."""
    r.encoded.append(common.src_ref("src/lian/basics/scope_hierarchy.py", "UnitScopeHierarchyAnalysis.summarize_symbol_decls (symbolically executed)"))
    r.encoded.append(common.src_ref("src/lian/core/resolver.py", "Resolver.resolve_symbol_source_decl, organize_return_value (symbolically executed)"))
    r.assumptions += [
        "kernel: for every forest of 3 scopes (kind method/class/block/for, parent = module or an earlier scope, optionally named x, "
        "optionally owning a declaration of x; rows in statement-id order as in lian's scope table), every current scope and both "
        "values of source_symbol_must_be_global, the declaration returned is the one of the nearest scope on the lexical chain "
        "that declares x; blocks directly under the module are consulted only if the chain declares nothing; else unresolved",
        "kernel precondition: no scope owns two declarations of the same name (which row wins is not part of the claim)",
    ]
    r.stubs += ["Resolver.resolve_implicit_root_scopes: computed from the same rows with its documented meaning (BLOCK_KIND rows whose "
                "scope_id is 0) instead of through the pandas table", "loader.is_import_stmt: False (imports are outside the kernel)"]
    kinds = [0, 2] if tier == "quick" else [0, 1, 2, 3]
    # quick: only the first scope may itself be named like the symbol; thorough: any of the three
    slices = [dict(scopes=3, kinds=kinds, named_scopes=1 if tier == "quick" else 3, fix={"k1": [a], "k2": [b], "cur": [c]})
              for a in kinds for b in kinds for c in range(4)]
    b = xrun.Batch(r)
    b.add("kernel: resolution == nearest declaring scope of the lexical chain, on every 3-scope forest", MK, "check_resolution",
          slices=slices, pct=600 if tier == "quick" else 3000, ppt=30, twin="check_resolution_reach",
          twin_slice=dict(scopes=3, kinds=kinds, named_scopes=1 if tier == "quick" else 3, fix={"k1": [0], "k2": [0], "cur": [2]}),
          bounds={"scopes": 3, "kinds": [["method", "class", "block", "for"][k] for k in kinds], "names": "x (declared) / others",
                  "current scope": "module or any scope", "global flag": "both"})
    b.execute()


def replay(rec):
    if rec["obligation"].startswith("kernel"):
        out = xrun.replay_native(MK, "check_resolution", rec["cex"].get("slice", {}), rec["cex"]["cex"])
        return bool(out.get("violated")), out
    return tcommon.replay_program(rec, "check_scope", "semantic", TABLES, progs.family_scope() + progs.family_scope_generated() + progs.family_scope_imports() + progs.scope_witnesses())
