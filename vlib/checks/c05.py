"""C05 — names are bound to the declaration selected by lexical scoping (Engine T, binding observed along executions)."""
from vlib import common, progs
from vlib.checks import tcommon

TABLES = [("space", "semantic_p3/s2space_p3.bundle*"), ("space1", "semantic_p1/s2space_p1.bundle*")]


def run(tier):
    r = common.Run("C05", tier, "translation_validation")
    r.encoded.append(common.src_ref("src/lian/basics/scope_hierarchy.py", "(through main.py semantic)"))
    r.encoded.append(common.src_ref("src/lian/core/resolver.py", "Resolver.resolve_symbol_source_decl (through main.py semantic)"))
    r.encoded.append(common.src_ref("src/lian/basics/stmt_def_use_analysis.py", "(through main.py semantic)"))
    r.assumptions += [
        "per program the solver decides for all inputs (all branch decisions): at every executed occurrence of an identifier, the "
        "declaration lian resolves it to (symbol_id in semantic_p1/s2space_p1 and semantic_p3/s2space_p3 for that statement and "
        "name) is the declaration owning the storage cell the reference interpreter reads or writes under Python's scoping rules "
        "(parameter, local, enclosing function, module; global/nonlocal)",
        "Python, single file; family F-scope: shadowing by parameter/local/inner function, closures (1 and 2 levels), global and "
        "nonlocal writes, sibling locals, names used only in a branch, methods reading globals / shadowing them by parameters; "
        "generated: a name assigned in every non-empty subset of {module, f, inner, inner-inner} and read at every level where visible",
        "the renaming clause of the property is a relation between runs (not addressed); class attributes are judged as fields",
    ]
    r.outside += ["JavaScript let/const/var", "multi-file imports (not in this round)", "the X-kernel on scope forests of the design"]
    fam = progs.family_scope() + progs.family_scope_generated()
    wit = progs.scope_witnesses()
    tcommon.drive(r, fam + wit, len(fam), "check_scope", "check_scope_reach", "every executed occurrence is bound to the right declaration",
                  "semantic", TABLES, tier, chunk=4)
    return r


def replay(rec):
    return tcommon.replay_program(rec, "check_scope", "semantic", TABLES, progs.family_scope() + progs.family_scope_generated() + progs.scope_witnesses())
