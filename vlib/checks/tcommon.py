"""Driver shared by the Engine T checks: build a batch from a real lian run, slice it over CrossHair workers, re-run chunks
without the programs that already produced a (known or new) finding."""
import importlib
import os

from vlib import tbatch, xrun

M = "vlib.harness.h_prog"


def cost(p):
    """rough relative cost of deciding one program: loops multiply the number of paths and the length of each"""
    src = p["src"]
    loops = src.count("while ") + src.count("for ")
    return 1 + 5 * loops + (6 if loops > 1 else 0)


def ranges(programs, n_strict, budget):
    """contiguous index ranges over programs[:n_strict] whose summed cost stays within the budget"""
    out, lo, acc = [], 0, 0
    for i in range(n_strict):
        c = cost(programs[i])
        if i > lo and acc + c > budget:
            out.append([lo, i])
            lo, acc = i, 0
        acc += c
    if n_strict > lo:
        out.append([lo, n_strict])
    return out


def drive(r, programs, n_strict, func, twin, label, cmd, tables, tier, chunk=12, pct=None, static=None, langs="python",
          strict_vocabulary=False, key="", settings_files=None):
    """programs[:n_strict] are sliced in chunks; programs[n_strict:] (witnesses) one per slice."""
    batch, info = tbatch.build_batch(programs, cmd=cmd, tables=tables, langs=langs, settings_files=settings_files)
    r.extra["lian_run" + key] = {k: info[k] for k in ("rc", "wall_s", "cmd")}
    if info["rc"] != 0 or not any(p["rows"] for p in programs):
        r.harness_error(f"lian {cmd} failed on the batch (rc={info['rc']}): {info['log_tail'][-600:]}")
        return None
    batch["strict_vocabulary"] = strict_vocabulary
    path = tbatch.save_batch(batch)
    try:
        h = importlib.import_module(M)
        screen = h.prescreen(path)
        unsupported = {i: s for i, s in enumerate(screen) if s != "ok"}
        empty = [i for i, p in enumerate(programs) if not p["rows"]]
        r.extra["programs_generated" + key] = len(programs)
        r.extra["not_executable_by_reference_interpreter" + key] = {programs[i]["name"]: s for i, s in unsupported.items()}
        for i in empty:
            r.harness_error(f"lian emitted no GIR for {programs[i]['name']}")
        skip = sorted(set(unsupported) | set(empty))
        if static:
            static(h, r, programs, skip)
        slices = [dict(batch=path, range=rg, skip=skip) for rg in ranges(programs, n_strict, chunk)]
        slices += [dict(batch=path, range=[i, i + 1], skip=[]) for i in range(n_strict, len(programs)) if i not in skip]
        pct = pct or (300 if tier == "quick" else 1200)
        pending, rounds, covered = slices, 0, set()
        while pending and rounds < 4:
            rounds += 1
            b = xrun.Batch(r)
            b.add(f"{label} (round {rounds})", M, func, slices=pending, pct=pct, ppt=30,
                  twin=twin if rounds == 1 else None, twin_slice=dict(batch=path, range=[0, 1], skip=[]),
                  bounds={"programs_per_slice": chunk, "a,b": "unbounded ints (loop-free) / a in 0..3, b in 0..2", "c": "bool"})
            n_before = len(r.obligations)
            b.execute()
            nxt = []
            for ob in r.obligations[n_before:]:
                s = ob.get("slice")
                if not s or "range" not in s:
                    continue
                if ob["status"] == "REFUTED_REPLAYED" and s["range"][1] - s["range"][0] > 1:
                    bad = [v["cex"]["cex"]["pidx"] for v in r.violations if v["cex"].get("slice") == s] + \
                          [c["cex"]["pidx"] for e, c in r.known_hits if c.get("slice") == s]
                    nxt.append(dict(batch=path, range=s["range"], skip=sorted(set(s.get("skip", [])) | set(bad))))
                elif ob["status"] == "CONFIRMED":
                    covered |= set(range(s["range"][0], s["range"][1])) - set(s.get("skip", []))
            pending = nxt
        r.counters["programs"] += len(programs) - len(skip)
        r.extra["programs_confirmed_for_all_arguments" + key] = len(covered)
        for p in (programs[0], programs[min(len(programs) - 1, n_strict // 2)], programs[-1]):
            r.add_sample({"name": p["name"], "source": p["src"], "gir_rows": len(p["rows"])})
    finally:
        os.unlink(path)
    return batch


def replay_program(rec, func, cmd, tables, all_programs, langs="python", settings_files=None):
    cex = rec["cex"]["cex"]
    allp = {p["name"]: p for p in all_programs}
    if cex["prog"] not in allp:
        return False, f"program {cex['prog']} is no longer in the family"
    batch, info = tbatch.build_batch([allp[cex["prog"]]], cmd=cmd, tables=tables, langs=langs, settings_files=settings_files)
    path = tbatch.save_batch(batch)
    try:
        out = xrun.replay_native(M, func, dict(batch=path, range=[0, 1]), dict(cex, pidx=0))
    finally:
        os.unlink(path)
    return bool(out.get("violated")), out
