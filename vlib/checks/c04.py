"""C04 — every concrete execution of a method is a path in its CFG (Engine T on lian's cfg table + reference interpreter)."""
from vlib import common, progs
from vlib.checks import tcommon

TABLES = [("cfg", "semantic_p1/cfg.bundle*")]


def family(tier, seed):
    base, ctl = (progs.quick_family(seed) if tier == "quick" else progs.thorough_family(seed))
    return base, ctl, progs.witnesses()


def run(tier):
    r = common.Run("C04", tier, "model_checking")
    r.encoded.append(common.src_ref("src/lian/basics/control_flow.py", "ControlFlowAnalysis (executed concretely through main.py semantic)"))
    r.assumptions += [
        "per program and method the solver decides, for all entry arguments (= all branch decisions; loop counters a in 0..3, "
        "b in 0..2), that the statement trace of the reference interpreter on lian's own GIR is a path of lian's stored CFG: "
        "first statement is an entry node, every consecutive pair is an edge, the last statement has an edge to the exit (-1)",
        "trace convention (DESIGN section 10): a loop statement's id is emitted at each test; parameter declarations are statements",
        "Python: the C01 family (all control-flow skeletons up to the size bound, nested-loop placements, call/class/data forms); "
        "all seven frontends: the core programs of C02 (counted for with init/condition/update, while, break/continue, else-if chains, conditional expressions, calls; quick tier: the branching ones in the six non-Python frontends)",
        "lian's CFG builder itself runs concretely; the explored variable is the program input",
    ]
    r.outside += ["goto/label, yield, implicit exceptions, try/except, switch/match (not in the family yet)", 
                  "more than 3 loop iterations"]
    base, ctl, wit = family(tier, common.seed())
    programs = base + ctl + wit
    n_strict = len(base) + len(ctl)

    def static(h, run_, programs_, skip):
        n_bad = 0
        for i in range(len(programs_)):
            if i in skip:
                continue
            for msg in h.cfg_static(i):
                n_bad += 1
                if n_bad <= 3:
                    run_.report("static: nodes belong to the method", {"prog": programs_[i]["name"], "msg": msg},
                                f"cfg-static:{programs_[i]['name']}", f"{programs_[i]['name']}: {msg}")
        run_.add_obligation(name="no node of a method's graph belongs to another method (all programs, concrete)",
                            engine="concrete scan", status="held" if n_bad == 0 else "failed", programs=len(programs_))
    tcommon.drive(r, programs, n_strict, "check_cfg", "check_cfg_reach", "trace is a CFG path for all arguments", "semantic",
                  TABLES, tier, static=static)
    # the same obligation on the core programs rendered in all seven frontends (for_stmt with init/condition_prebody/update,
    # while with condition_prebody, C-style break/continue)
    from vlib.checks import c02
    core = c02.programs()
    if tier == "quick":
        # straight-line renderings have a one-path graph, and the Python renderings repeat the first leg: thorough tier only
        core = [p for p in core if p["lang"] != "python" and any(k in p["src"] for k in ("if ", "while ", "for "))]
    r.extra["seven_frontend_programs"] = len(core)
    tcommon.drive(r, core, len(core), "check_cfg", None, "trace is a CFG path for all arguments, seven frontends", "semantic",
                  TABLES, tier, chunk=14, langs=c02.LANG_ARG, key="_seven_frontends")
    return r


def replay(rec):
    base, ctl = progs.thorough_family(0)
    return tcommon.replay_program(rec, "check_cfg", "semantic", TABLES, base + ctl + progs.witnesses())
