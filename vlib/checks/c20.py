"""C20 — entry point selection kernels (Engine X)."""
from vlib import common, xrun

M = "vlib.harness.h_c20"


def run(tier):
    r = common.Run("C20", tier, "model_checking")
    r.encoded.append(common.src_ref("src/lian/basics/entry_points.py", "EntryPointGenerator.filter_rule_by_unit_info",
                                    "EntryPointGenerator.check_rules"))
    r.encoded.append(common.src_ref("src/lian/util/util.py", "check_file_processing_flag_and_extract_lang", "is_available"))
    r.assumptions += [
        "kernel level only: the rule filters and the settings file-name filter; which methods the top-down phase then starts "
        "from (program-level leg of the design) is not exercised by this check",
        "rule fields range over the listed option tables (index chosen by the solver, decoded lazily when the code reads "
        "the field); unit and method descriptions over the listed values; a rule naming args/return_type selects nothing "
        "(the selector has no such information) - reading fixed in the reference",
        "unit scope table: duck-typed rows (the real DataModel query is C16's subject)",
    ]
    r.outside += ["the 585 kB default entry.yaml (data)", "P3 start set == entry_points table (program-level)"]
    import importlib
    h = importlib.import_module(M)
    b = xrun.Batch(r)
    nu = len(h.UNITS)
    Z = [0]

    def fx(**kw):
        return {str(k): v for k, v in kw.items()}
    unit_level = []      # rule A unit-level fields symbolic, method-level absent
    method_level = []    # rule A method-level fields symbolic, unit-level absent
    two_rules = []       # first-match logic: A and B differ in method_id / method_list (/attrs for B)
    units_m = range(nu) if tier != "quick" else (0,)
    for u in range(nu):
        for l in range(3):
            unit_level.append(dict(rules=1, unit=u, fix={"0": [l], "4": Z, "5": Z, "6": Z, "7": Z, "8": Z}))
    for u in units_m:
        for mid in range(3):
            method_level.append(dict(rules=1, unit=u, fix={"0": Z, "1": Z, "2": Z, "3": Z, "4": [mid]}))
            f = {"0": Z, "1": Z, "2": Z, "3": Z, "4": [mid], "6": Z, "7": Z, "8": Z,
                 "9": Z, "10": Z, "11": Z, "12": Z, "16": Z, "17": Z, "19": Z}
            two_rules.append(dict(rules=2, unit=u, fix=f))
    pct = 300 if tier == "quick" else 1500
    b.add("1 rule, unit-level fields x unit x method: selected set == declarative reading", M, "check_selection",
          slices=unit_level, pct=pct, ppt=30, twin="check_selection_reach", twin_slice=dict(rules=1, unit=0),
          bounds={"rules": 1, "units": nu, "symbolic": "lang, unit_id, unit_name, unit_path, method name/attrs", "options": h.RULE_OPTS})
    b.add("1 rule, method-level fields x method: selected set == declarative reading", M, "check_selection",
          slices=method_level, pct=pct, ppt=30,
          bounds={"rules": 1, "symbolic": "method_id, method_list, attrs, args, return_type, method name/attrs"})
    b.add("2 rules (first-match logic), method_id/method_list of both, attrs of the second", M, "check_selection",
          slices=two_rules, pct=pct, ppt=30, bounds={"rules": 2, "symbolic": "A.method_id, A.method_list, B.method_id, B.method_list, B.attrs, method name"})
    if tier != "quick":
        full = [dict(rules=1, unit=u, fix={"0": [l], "4": [mid]}) for u in range(nu) for l in range(3) for mid in range(3)]
        b.add("1 rule, all nine fields symbolic", M, "check_selection", slices=full, pct=3000, ppt=30, bounds={"rules": 1})
    for plen in ((2,) if tier == "quick" else (2, 3)):
        b.add(f"settings file-name filter for every prefix of length <= {plen} over {{a,-,.,e}} x {len(h.SUFFIXES)} suffixes", M,
              "check_filename", slices=[dict(plen=plen)], pct=300 if tier == "quick" else 1500, ppt=60,
              bounds={"prefix": f"symbolic str, len <= {plen}, alphabet a - . e", "suffixes": h.SUFFIXES})
    b.execute()
    from vlib.checks import c20_programs
    r.encoded.append(common.src_ref("src/lian/basics/basic_analysis.py", "(entry generation per unit, executed concretely through main.py run)"))
    r.encoded.append(common.src_ref("src/lian/core/global_semantics.py", "P3 start set = loader.get_entry_points() (through main.py run)"))
    c20_programs.run_leg(r, tier)
    r.add_sample({"unit": ["python", 7, "src/a.py"], "rule": {"lang": "python", "unit_name": "a", "method_list": ["main"]},
                  "methods": [["main", None], ["g", "['static']"]]})
    return r


def replay(rec):
    cex = rec["cex"]
    if rec["obligation"].startswith("program leg"):
        from vlib.checks import c20_programs
        return c20_programs.replay(rec)
    func = "check_filename" if "file-name" in rec["obligation"] else "check_selection"
    out = xrun.replay_native(M, func, cex.get("slice", {}), cex["cex"])
    return bool(out.get("violated")), out
