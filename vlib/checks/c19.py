"""C19 — the call-path store keeps exactly the maximal paths (Engine X over the real PathManager/PathTrie)."""
import itertools

from vlib import common, xrun

M = "vlib.harness.h_c19"


def run(tier):
    r = common.Run("C19", tier, "model_checking")
    r.encoded.append(common.src_ref("src/lian/common_structs.py", "CallSite", "CallPath", "TrieNode", "PathTrie",
                                    "PathManager"))
    r.assumptions += [
        "call-site alphabet: 3 valid call sites + 1 with a negative statement id; paths are sequences over it",
        "reference model: add = reject invalid / present / proper prefix of a stored path, else evict stored proper "
        "prefixes and insert; remove = delete if present; written from the property text",
        "CrossHair CONFIRMED = decision tree exhausted for the slice; anything else is reported as inconclusive",
    ]
    r.outside += ["histories longer than the bound; paths longer than the bound; alphabets larger than 4 call sites"]
    if tier == "quick":
        confs = [dict(n=2, m=2, codes=4, kmax=2, pct=240), dict(n=3, m=2, codes=2, kmax=1, pct=300, first_add=True),
                 dict(n=5, m=1, codes=2, kmax=1, pct=300, first_add=True),
                 # two stored paths with a common prefix, then a removal, then an add (3 call sites)
                 dict(n=4, m=2, codes=3, kmax=1, pct=300, first_add=True, kinds=[0, 0, 1, 0], fixed_first=[0, [0, 1]])]
    else:
        confs = [dict(n=2, m=3, codes=4, kmax=2, pct=1500), dict(n=3, m=2, codes=3, kmax=2, pct=3000),
                 dict(n=3, m=2, codes=4, kmax=1, pct=3000), dict(n=4, m=2, codes=2, kmax=1, pct=3000, first_add=True),
                 dict(n=5, m=2, codes=2, kmax=1, pct=3000, first_add=True, kinds=[0, 0, 1, 1, 0]),
                 dict(n=5, m=2, codes=2, kmax=1, pct=3000, first_add=True, kinds=[0, 0, 1, 0, 0]),
                 dict(n=5, m=2, codes=2, kmax=1, pct=3000, first_add=True, kinds=[0, 1, 0, 1, 0]),
                 dict(n=4, m=2, codes=3, kmax=1, pct=3000, first_add=True, kinds=[0, 0, 1, 0]),
                 dict(n=4, m=2, codes=3, kmax=1, pct=3000, first_add=True, kinds=[0, 0, 0, 0], fixed_first=[0, [0, 1]]),
                 dict(n=4, m=3, codes=3, kmax=1, pct=3000, first_add=True, kinds=[0, 0, 0, 0], fixed_first=[0, [0, 1]], second=[0, [0, 2]])]
    b = xrun.Batch(r)
    for c in confs:
        n, m, codes = c["n"], c["m"], c["codes"]
        firsts = [[]]
        for l in range(1, m + 1):
            firsts += [list(t) for t in itertools.product(range(codes), repeat=l)]
        kmax = c["kmax"]
        ops0 = [[k, p] for k in range(1 if c.get('first_add') else kmax + 1) for p in firsts]
        ops1 = [[k, p] for k in range(kmax + 1) for p in firsts]
        if c.get("kinds"):
            ops1 = [o for o in ops1 if o[0] == c["kinds"][1]]
        if c.get("fixed_first"):
            ops0 = [c["fixed_first"]]
        if c.get("second"):
            ops1 = [c["second"]]
        prefixes = [[a] for a in ops0] if n < 4 else [[a, b_] for a in ops0 for b_ in ops1]
        slices = [dict(n=n, m=m, codes=codes, kmax=kmax, prefix=pf, kinds=c.get("kinds")) for pf in prefixes]
        kd = "add/remove/exists" if kmax == 2 else "add/remove"
        if c.get("kinds"):
            kd = "pattern " + "".join("ARE"[k] for k in c["kinds"])
        b.add(f"history(n={n},maxlen={m},alphabet={codes},kinds={kd})", M, "check_history", slices=slices, pct=c["pct"],
                   ppt=30, twin="check_history_reach", twin_slice=dict(n=n, m=m, codes=codes, kmax=kmax, prefix=[[0, [0]]], kinds=c.get('kinds')),
                   bounds={"operations": n, "max_path_length": m, "alphabet": codes,
                           "first_operation": "add only" if c.get("first_add") else "any",
                           "slice": "the first one or two operations (kind, path) are fixed per worker"})
    b.add("CallSite eq/lt/negative for all ids", M, "check_callsite", pct=60,
               bounds={"ids": "unbounded ints"})
    b.add("CallSite hash consistent with eq", M, "check_callsite_hash", pct=60,
               bounds={"ids": "-1..1 (hash realises them: enumerative)"})
    for n in ((2, 3) if tier == "quick" else (2, 3, 4)):
        b.add(f"count_cycles == definition (n={n})", M, "check_count_cycles", slices=[dict(n=n)], pct=120,
                   bounds={"call sites": n, "ids": "unbounded ints compared by equality"})
    b.execute()
    r.add_sample({"history": "add [0,1]; remove [0,1]; add [0]", "encoding": {"kinds": [0, 1, 0], "paths": [[0, 1], [0, 1], [0]]}})
    r.add_sample({"history": "add []; exists []; add [1]", "encoding": {"kinds": [0, 2, 0], "paths": [[], [], [1]]}})
    return r


def replay(rec):
    cex = rec["cex"]
    func = {"history": "check_history", "CallSite eq": "check_callsite", "CallSite hash": "check_callsite_hash",
            "count_cycles": "check_count_cycles"}
    name = rec["obligation"]
    f = next(v for k, v in func.items() if name.startswith(k))
    out = xrun.replay_native(M, f, cex.get("slice", {}), cex["cex"])
    return bool(out.get("violated")), out
