"""C20 program leg: the real pipeline (main.py run) on one two-language project under a family of entry rule sets; the entry_points
table must be exactly the set the rules select (the declarative reading that the kernel legs decide symbolically), and the
reported taint flows must be exactly those of code reachable from the selected methods."""
import json

from vlib import tengine, progs

FILES = {
    "app/main.py": "def serve(x):\n    t = source()\n    sink(t)\n    helper(t)\n\ndef helper(p):\n    u = source()\n    sink(u)\n\n"
                   "def orphan():\n    w = source()\n    sink(w)\n\nv = source()\nsink(v)\n",
    "lib/util.py": "def serve(x):\n    t = source()\n    sink(t)\n\ndef tool():\n    u = source()\n    sink(u)\n\nv = source()\nsink(v)\n\n"
                   "def ping(n):\n    p = source()\n    sink(p)\n    if n:\n        pong(n)\n\ndef pong(n):\n    q = source()\n    sink(q)\n    if n:\n        ping(n)\n",
    "web/handler.js": "function serve(x) {\n    var t = source();\n    sink(t);\n}\n\nfunction other() {\n    var u = source();\n    sink(u);\n"
                      "    serve(u);\n}\n\nvar v = source();\nsink(v);\n",
}
LANG = {"app/main.py": "python", "lib/util.py": "python", "web/handler.js": "javascript"}
# (file, method) -> source lines of its own flows; calls (static, by construction)
FLOWS = {
    ("app/main.py", "serve"): [2], ("app/main.py", "helper"): [7], ("app/main.py", "orphan"): [11], ("app/main.py", "%unit_init"): [14],
    ("lib/util.py", "serve"): [2], ("lib/util.py", "tool"): [6], ("lib/util.py", "%unit_init"): [9],
    ("lib/util.py", "ping"): [13], ("lib/util.py", "pong"): [19],
    ("web/handler.js", "serve"): [2], ("web/handler.js", "other"): [7], ("web/handler.js", "%unit_init"): [12],
}
CALLS = {("app/main.py", "serve"): [("app/main.py", "helper")], ("web/handler.js", "other"): [("web/handler.js", "serve")],
         ("lib/util.py", "ping"): [("lib/util.py", "pong")], ("lib/util.py", "pong"): [("lib/util.py", "ping")]}

INIT = "%unit_init"


def R(**kw):
    return kw


RULESETS = {
    "empty": {"entry.yaml": []},
    "initialiser_only": {"entry.yaml": [R(method_list=[INIT])]},
    "by_name": {"entry.yaml": [R(method_list=["serve"])]},
    "by_name_uncalled_methods": {"entry.yaml": [R(method_list=["orphan", "tool", "other"])]},
    "by_name_reached_only_through_an_entry": {"entry.yaml": [R(method_list=["other"])]},
    "language_python": {"entry.yaml": [R(lang="python", method_list=["serve"])]},
    "language_javascript": {"entry.yaml": [R(lang="javascript", method_list=["serve", "other"])]},
    "language_without_units": {"entry.yaml": [R(lang="go", method_list=["serve"])]},
    "unit_name_substring": {"entry.yaml": [R(unit_name="util", method_list=["serve", "tool"])]},
    "unit_name_full": {"entry.yaml": [R(unit_name="main.py", method_list=["serve"])]},
    "unit_path_substring": {"entry.yaml": [R(unit_path="app/", method_list=["orphan"])]},
    "unit_without_method_list": {"entry.yaml": [R(unit_name="util.py")]},
    "overlapping_rules": {"entry.yaml": [R(method_list=["serve"]), R(lang="python", method_list=["serve", "orphan"]),
                                         R(unit_name="main.py", method_list=[INIT])]},
    "rules_in_two_files": {"entry.yaml": [R(lang="javascript", method_list=["serve"])],
                           "more/python-entry.yaml": [R(method_list=["orphan"])],
                           "more/myentry.yaml": [R(method_list=["tool"])]},          # the last name is not an entry file
    "entries_on_a_call_cycle": {"entry.yaml": [R(method_list=["ping", "pong"])]},
    "one_entry_of_a_call_cycle": {"entry.yaml": [R(method_list=["pong"])]},
    "entry_called_by_another_entry": {"entry.yaml": [R(method_list=["helper", "serve"], unit_name="main")]},
    "initialiser_of_one_unit": {"entry.yaml": [R(unit_path="web/", method_list=[INIT])]},
}


def entry_file_applies(name):
    base = name.rsplit("/", 1)[-1]
    return base == "entry.yaml" or (base.endswith("-entry.yaml") and len(base.split("-")[0]) > 0)


def rule_selects(rule, file, method):
    if rule.get("lang") and rule["lang"] != LANG[file]:
        return False
    base = file.rsplit("/", 1)[-1]
    if rule.get("unit_name") and rule["unit_name"] not in base:
        return False
    if rule.get("unit_path") and rule["unit_path"] not in "/src/in/" + file:
        return False
    if rule.get("method_list") and method not in rule["method_list"]:
        return False
    return True


def expected(ruleset):
    rules = [r for name, rs in ruleset.items() if entry_file_applies(name) for r in rs]
    entries = {fm for fm in FLOWS if any(rule_selects(r, fm[0], fm[1]) for r in rules)}
    reach, todo = set(entries), list(entries)
    while todo:
        for callee in CALLS.get(todo.pop(), []):
            if callee not in reach:
                reach.add(callee)
                todo.append(callee)
    flows = {(fm[0], line) for fm in reach for line in FLOWS[fm]}
    return entries, flows


def settings_for(ruleset):
    s = dict(progs.TAINT_SETTINGS)
    both = lambda body: "".join(f"- lang: {l}\n  rules:\n{body}" for l in ("python", "javascript"))   # noqa: E731
    s["source.yaml"] = both('    - operation: call_stmt\n      name: source\n      tag: ["%target"]\n')
    s["sink.yaml"] = both("    - operation: call_stmt\n      name: sink\n      target: [\\%arg0]\n      vuln_type: generic_sink\n")
    del s["entry.yaml"]
    for name, rules in ruleset.items():
        s[name] = json.dumps(rules) + "\n"        # JSON is YAML
    if "entry.yaml" not in s:
        s["entry.yaml"] = "[]\n"
    return s


def observe(ruleset):
    """run the real pipeline; returns (rc, entries as {(file, method)}, flows as {(file, source line)}, log tail)"""
    import os
    import pandas as pd
    run = tengine.run_lian(FILES, cmd="run", langs="python,javascript", settings_files=settings_for(ruleset))
    try:
        if run.rc != 0:
            return run.rc, set(), set(), run.log[-600:]
        units = run.units()
        gir = run.gir()
        method = {}
        for key, uid in units.items():
            for r in gir.get(uid, []):
                if r["operation"] == "method_decl":
                    method[int(r["stmt_id"])] = (key.split("in/", 1)[1], r["name"])
        entries = set()
        p = os.path.join(run.ws, "semantic_p1", "entry_points")
        if os.path.exists(p):
            for cell in pd.read_feather(p)["entry_points"]:
                for sid in list(cell):
                    entries.add(method.get(int(sid), ("?", int(sid))))
        flows = set()
        for f in run.taint_flows():
            path = str(f["source_file_path"])
            flows.add((path.split("/in/", 1)[1] if "/in/" in path else path, int(f["source_line"])))
        return 0, entries, flows, ""
    finally:
        run.cleanup()


def judge(name):
    want_e, want_f = expected(RULESETS[name])
    rc, got_e, got_f, log = observe(RULESETS[name])
    if rc != 0:
        return None, f"lian run failed (rc={rc}): {log}"
    problems = []
    if got_e != want_e:
        problems.append(f"entry_points table: selected but not configured {sorted(got_e - want_e)}, configured but not selected {sorted(want_e - got_e)}")
    if got_f != want_f:
        problems.append(f"taint flows (file, source line): reported from code no entry reaches {sorted(got_f - want_f)}, "
                        f"missing although reachable from a selected entry {sorted(want_f - got_f)}")
    return problems, dict(entries=sorted(got_e), flows=sorted(got_f))


def run_leg(r, tier):
    from concurrent.futures import ThreadPoolExecutor
    r.assumptions.append(
        "program leg: one project (2 Python units, 1 JavaScript unit; every method has its own source->sink pair, two call edges) x "
        f"{len(RULESETS)} entry rule sets through the real main.py run; expected entry set = the declarative reading of the rules "
        "(the one the kernel legs decide symbolically), expected flows = those of methods reachable from it")
    with ThreadPoolExecutor(5) as ex:
        results = dict(zip(RULESETS, ex.map(judge, RULESETS)))
    for name, (problems, detail) in results.items():
        ob = f"program leg: entry_points table and reported flows under entry rule set `{name}`"
        if problems is None:
            r.harness_error(f"{name}: {detail}")
            continue
        r.add_obligation(name=ob, engine="T (concrete comparison with the declarative reading)", status="held" if not problems else "violated",
                         rules=RULESETS[name], observed=detail)
        r.counters["programs"] += 1
        for text in problems:
            kind = "entries" if text.startswith("entry_points") else "flows"
            r.report(ob, dict(cex=dict(kind="ruleset", ruleset=name, problem=kind), slice=None), f"entry-program:{name}:{kind}",
                     f"entry rule set `{name}` {json.dumps(RULESETS[name])}: {text}")


def replay(rec):
    c = rec["cex"]["cex"]
    problems, detail = judge(c["ruleset"])
    if problems is None:
        return False, detail
    same = [t for t in problems if (t.startswith("entry_points")) == (c["problem"] == "entries")]
    return bool(same), {"problems": same, "observed": detail}
