"""C18 — filesystem confinement (Engine X: real set_workspace_dir + WorkspaceBuilder.run over an in-memory filesystem)."""
from vlib import common, xrun

M = "vlib.harness.h_c18"


def run(tier):
    r = common.Run("C18", tier, "model_checking")
    r.encoded.append(common.src_ref("src/lian/preparation.py", "WorkspaceBuilder.run", "manage_directory", "prepare_directory",
                                    "copytree_with_extension", "cleanup_directory"))
    r.encoded.append(common.src_ref("src/lian/main.py", "Lian.set_workspace_dir"))
    r.stubs += ["lian.preparation.os / shutil -> vlib/stubs/fakefs.py (walk, listdir, makedirs, isfile, isdir, islink, exists, "
                "realpath, abspath, relpath, copy2, rmtree, unlink, copytree; posixpath for path algebra); every effect is "
                "logged; counterexamples are replayed on the real filesystem in a scratch directory"]
    r.assumptions += [
        "base tree: in/{a.py,notes.txt,[sub/b.py],[link -> ../other]}, other/c.py, ws/w.py, f.py, /outside/o.py; cwd = base, "
        "where base is /base or /old_lian_workspace_runs/base; a stale workspace holds old files and two symlinks pointing out of it",
        "the workspace directory is where the option documents it: the option itself if it contains 'lian_workspace', else "
        "<option>/lian_workspace (judged on the option as given)",
        "languages = python (.py); --nomock; no C preprocessing; incremental mode may delete inside its own <workspace>/bak",
        "bounded copying = at most 12 x (input paths + 12) filesystem effects and at most 600 filesystem calls",
    ]
    r.outside += ["permissions, concurrent modification, C preprocessing (-I), Windows paths"]
    import importlib
    h = importlib.import_module(M)
    nin = len(h.IN_PATHS)
    b = xrun.Batch(r)
    slices = []
    if tier == "quick":
        w1s = [h.ABSENT, 0, 2]            # ws option: one component, or x/in, x/lian_workspace
        i1s = [h.ABSENT, 3]               # second input: none or "."
        for w0 in range(len(h.WS_COMPS)):
            for wabs in (0, 1, 2, 3):
                slices.append(dict(fix=dict(w0=[w0], wabs=[wabs], w1=w1s, i1=i1s, link=[1], stale=[1], force=[0, 1])))
        # incremental runs (with and without --force) over a stale workspace whose own src / bak are links pointing out of it
        for w0 in range(len(h.WS_COMPS)):
            slices.append(dict(fix=dict(w0=[w0], wabs=[0, 1], w1=[h.ABSENT], i0=[0], i1=[h.ABSENT], link=[0], nested=[0], stale=[0, 1, 2], force=[2, 3])))
            slices.append(dict(fix=dict(w0=[w0], wabs=[0], w1=[h.ABSENT], i0=[0], i1=[h.ABSENT], link=[0], nested=[0], stale=[2], force=[0, 1])))
    else:
        for w0 in range(len(h.WS_COMPS)):
            for wabs in (0, 1, 2, 3):
                for i0 in range(nin):
                    slices.append(dict(fix=dict(w0=[w0], wabs=[wabs], i0=[i0], w1=[h.ABSENT, 0, 2, 4, 6], i1=[h.ABSENT, 0, 3, 5],
                                                stale=[0, 1], force=[0, 1])))
        # incremental mode and workspaces whose own src / bak are out-pointing links: one- and two-component options, every first input
        for w0 in range(len(h.WS_COMPS)):
            for i0 in range(nin):
                slices.append(dict(fix=dict(w0=[w0], wabs=[0, 1], w1=[h.ABSENT, 0, 2], i0=[i0], i1=[h.ABSENT], link=[0, 1], nested=[0], stale=[0, 1, 2], force=[2, 3])))
                slices.append(dict(fix=dict(w0=[w0], wabs=[0, 1], w1=[h.ABSENT], i0=[i0], i1=[h.ABSENT], link=[0], nested=[0], stale=[2], force=[0, 1])))
    b.add("workspace x inputs x flags: effects confined to realpath(workspace), bounded, deletes only with --force", M,
          "check_confinement", slices=slices, pct=400 if tier == "quick" else 3000, ppt=60, twin="check_confinement_reach",
          twin_slice=dict(fix=dict(w0=[1], wabs=[0], w1=[h.ABSENT], i0=[0], i1=[h.ABSENT], force=[1])),
          bounds={"workspace option": "1..2 components over " + str(h.WS_COMPS) + ", relative or absolute",
                  "inputs": "1..2 of " + str(h.IN_PATHS), "flags": "nested dir, symlink to a directory, stale workspace (old files and out-pointing links / own src and bak being out-pointing links), --force, --incremental"})
    b.execute()
    r.add_sample({"workspace": "ws", "in_path": ["ws"], "force": True, "meaning": "workspace ws/lian_workspace inside the input ws"})
    r.add_sample({"workspace": "/base/xlian_workspacey", "in_path": ["in", "."], "force": True, "stale": True})
    return r


def replay(rec):
    cex = rec["cex"]
    out = xrun.replay_native(M, "check_confinement", cex.get("slice", {}), cex["cex"])
    return bool(out.get("violated")), out
