"""C03(a) — emitted GIR is structurally well-formed: any nested GIR value -> well-formed rows (Engine X + Engine S)."""
import time

import z3

from vlib import common, xrun
from vlib.sengine import Exec, State, cross_check_cvc5

M = "vlib.harness.h_c03"
CORE = [0, 1, 2, 4, 5, 6, 7]          # assign, variable_decl, call, if, method_decl, else, close


def id_arithmetic(r):
    """Engine S: adjust_node_id / init_start_stmt_id over unbounded ints, read from the AST."""
    common.setup_lian()
    from lian.lang.lang_analysis import LangAnalysis
    ex = Exec(ints_are_words=False)
    n = z3.Int("n")
    la = LangAnalysis.__new__(LangAnalysis)
    outs = ex.apply(LangAnalysis.adjust_node_id, [la, n], {}, State([n >= 0]))
    r.encoded.append(common.src_ref("src/lian/lang/lang_analysis.py", "LangAnalysis.adjust_node_id"))
    obligations = [
        ("ids of the next unit start above both %unit_init ids of this one: adjust(n) > n + 1", lambda v: v <= n + 1),
        ("adjust(n) is monotone progress: adjust(n) > n", lambda v: v <= n),
    ]
    for name, negated in obligations:
        status, model = "unsat", None
        t0 = time.time()
        for st, v in outs:
            s = z3.Solver()
            s.add(*st.pc)
            s.add(negated(v))
            res = s.check()
            if res == z3.sat:
                status, model = "sat", s.model()
                break
            if res == z3.unknown:
                status = "unknown"
            agrees, other = cross_check_cvc5(list(st.pc) + [negated(v)], "unsat")
            if agrees is False:
                r.harness_error(f"{name}: z3 unsat, cvc5 {other}")
        r.counters["queries"] += len(outs)
        r.counters["states"] += len(outs)
        r.counters["transitions"] += len(outs)
        r.counters["solver_s"] += time.time() - t0
        r.add_obligation(name="id arithmetic: " + name, engine="S", status=status, bounds={"n": "every int >= 0"},
                         paths=len(outs))
        if status == "sat":
            nv = model.eval(n, model_completion=True).as_long()
            got = la.adjust_node_id(nv)
            if negated(got) is True or (not isinstance(negated(got), bool) and z3.is_true(z3.simplify(negated(z3.IntVal(got))))):
                pass
            real_bad = (got <= nv + 1) if "n + 1" in name else (got <= nv)
            if real_bad:
                r.report("id arithmetic", {"n": nv, "adjust_node_id": got}, f"adjust_node_id:{name[:20]}",
                         f"adjust_node_id({nv}) = {got}: the next unit's ids are not above this unit's")
            else:
                r.harness_error(f"id arithmetic counterexample n={nv} does not reproduce (got {got})")
    if ex.may_raise:
        r.harness_error(f"adjust_node_id may raise: {ex.may_raise[0][1]}")
    # translator validation on a grid
    bad = 0
    for nv in list(range(0, 45)) + [99, 100, 101, 1009, 12345]:
        want = la.adjust_node_id(nv)
        vals = set()
        for st, v in outs:
            s = z3.Solver()
            s.add(*st.pc)
            s.add(n == nv)
            if s.check() == z3.sat:
                vals.add(s.model().eval(v, model_completion=True).as_long())
        if vals != {want}:
            bad += 1
    r.extra["translator_validation"] = {"function": "adjust_node_id", "grid_points": 50, "mismatches": bad}
    if bad:
        r.harness_error(f"encoding of adjust_node_id disagrees with the real function on {bad} grid points")


def run(tier):
    r = common.Run("C03", tier, "model_checking")
    r.encoded.append(common.src_ref("src/lian/lang/lang_analysis.py", "GIRProcessing.flatten", "flatten_gir", "flatten_stmt",
                                    "flatten_block", "assign_id", "init_stmt_id", "is_gir_format"))
    r.encoded.append(common.src_ref("src/lian/events/default_event_handlers/basic.py", "add_main_func"))
    r.encoded.append(common.src_ref("src/lian/util/gir_block.py", "GIRBlockViewer.__init__ (must accept the rows)"))
    r.assumptions += [
        "half (a) of the property only: any nested GIR value in the shape domain -> well-formed rows; half (b) (arbitrary "
        "source text through tree-sitter and the frontends never raises) is outside the claim",
        "shape domain: token sequences over {assign, variable_decl, call, import, global, if(+else), method_decl, "
        "class_decl, empty method_decl, close}; nesting depth <= 3; bodies are non-empty (what the frontends emit)",
        "start id: symbolic, every int >= 1 (main harness); concrete 1 for the GIRBlockViewer twin (it hashes ids)",
    ]
    r.outside += ["C03(b): arbitrary bytes through tree-sitter and 7 x 1.5 kLOC of frontend handlers",
                  "shapes longer than the token bound"]
    id_arithmetic(r)
    b = xrun.Batch(r)
    if tier == "quick":
        confs = [dict(len=3, alphabet=None, pct=300, nfirst=1, start=None),
                 dict(len=4, alphabet=CORE, pct=300, nfirst=1, start=None),
                 dict(len=4, alphabet=None, pct=300, nfirst=1, start=7),
                 dict(len=5, alphabet=CORE, pct=300, nfirst=2, start=1)]
        vconfs = [dict(len=4, alphabet=CORE, pct=200)]
    else:
        confs = [dict(len=4, alphabet=None, pct=3000, nfirst=2, start=None),
                 dict(len=5, alphabet=CORE, pct=3000, nfirst=2, start=None),
                 dict(len=6, alphabet=None, pct=3000, nfirst=2, start=1),
                 dict(len=8, alphabet=CORE, pct=3000, nfirst=3, start=13)]
        vconfs = [dict(len=6, alphabet=CORE, pct=2000)]
    import itertools
    for c in confs:
        alpha = c["alphabet"] or list(range(11))
        firsts = [list(t) for t in itertools.product(alpha, repeat=c["nfirst"]) if t[0] not in (6, 7)]
        slices = [dict(len=c["len"], alphabet=c["alphabet"], first=f, concrete_start=c["start"]) for f in firsts]
        sd = "every start id >= 1 (symbolic)" if c["start"] is None else f"start id {c['start']}"
        b.add(f"flatten+add_main_func well-formed, {c['len']} tokens over {len(alpha)} kinds, {sd}", M,
              "check_flatten", slices=slices, pct=c["pct"], ppt=30, twin="check_flatten_reach",
              twin_slice=dict(len=c["len"], alphabet=c["alphabet"], first=[0], concrete_start=c["start"]),
              bounds={"tokens": c["len"], "token_kinds": len(alpha), "depth": 3, "start_id": sd})
    for c in vconfs:
        alpha = c["alphabet"]
        slices = [dict(len=c["len"], alphabet=alpha, first=[f], concrete_start=1) for f in alpha if f not in (6, 7)]
        b.add(f"GIRBlockViewer accepts the emitted rows, {c['len']} tokens", M, "check_viewer_accepts", slices=slices,
              pct=c["pct"], ppt=30, bounds={"tokens": c["len"], "start_id": 1})
    b.execute()
    from vlib.checks import c03_corpus
    r.encoded.append(common.src_ref("src/lian/lang/lang_analysis.py", "LangAnalysis.run / GIRParser.deal_with_file_unit (through main.py lang, corpus leg)"))
    c03_corpus.run_leg(r, tier)
    r.add_sample({"tokens": [0, 4, 2, 7, 5, 1, 2, 7], "meaning": "assign; if { call }; method_decl { variable_decl; call }",
                  "start": "symbolic"})
    return r


def replay(rec):
    cex = rec["cex"]
    if (cex.get("cex") or {}).get("kind") == "corpus":
        from vlib.checks import c03_corpus
        return c03_corpus.replay(rec)
    if "tokens" not in (cex.get("cex") or {}):
        return True, cex
    out = xrun.replay_native(M, "check_flatten", cex.get("slice", {}), cex["cex"])
    return bool(out.get("violated")), out
