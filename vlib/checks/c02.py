"""C02 — the same program written in any supported language lowers to equivalent GIR (Engine T: one reference interpreter, one
instruction vocabulary; reference semantics = CPython on the Python rendering)."""
import json
import os

from vlib import common, core_lang
from vlib.checks import tcommon

LANG_ARG = "python,javascript,typescript,java,go,c,php"
CELLS_FILE = os.path.join(common.VERIF, "c02_known_cells.json")


def programs():
    out = []
    for (name, construct, lang, src, py, bounds) in core_lang.render_all():
        out.append(dict(name=f"{name}__{lang}", family="F-core", src=py, file_src=src, file=f"{name}__{lang}{core_lang.LANGS[lang]}",
                        bounds=dict(bounds), construct=construct, lang=lang, core=name))
    return out


def known_cells():
    if os.path.exists(CELLS_FILE):
        return set(tuple(c) for c in json.load(open(CELLS_FILE))["cells"])
    return set()


def run(tier):
    r = common.Run("C02", tier, "translation_validation")
    for lang in core_lang.LANGS:
        r.encoded.append(common.src_ref(f"src/lian/lang/{lang}_parser.py", "(executed concretely through main.py lang)"))
    r.assumptions += [
        "per (core program, frontend) the solver decides for all entry arguments: interpreting lian's GIR rows for the program's "
        "rendering in that language with ONE reference interpreter and ONE instruction vocabulary (DESIGN section 10; no "
        "per-frontend renaming of operations or columns) yields the outputs and return value of CPython on the Python rendering",
        "integers are mathematical; no division or modulo; loop bounds a in 0..3, b in 0..2",
        "core programs: arithmetic, comparisons, logical operators, if/else, while, counted for, break/continue, calls (argument "
        "order, in expressions, in branches), recursion",
        "construct x frontend cells that fail on the unchanged tree are listed one by one in known_findings.json (fingerprint = "
        "program rendering hash); every other cell is checked strictly",
    ]
    r.outside += ["records/objects/arrays across frontends (not in this round)", "cpp/csharp/ruby/llvm/smali/arkts frontends",
                  "strings", "32-bit overflow"]
    progs_ = programs()
    known = {e["fingerprint"] for e in r.known}
    strict = [p for p in progs_ if not is_known(p, known)]
    wit = [p for p in progs_ if is_known(p, known)]
    batch = tcommon.drive(r, strict + wit, len(strict), "check_equiv", "check_equiv_reach",
                          "CPython(reference rendering) == GIR(frontend rendering) for all arguments", "lang", [], tier, chunk=6,
                          langs=LANG_ARG, strict_vocabulary=True)
    # the matrix actually defended
    matrix = {}
    for p in progs_:
        matrix.setdefault(p["construct"], {})[p["lang"]] = "known-finding" if is_known(p, known) else "strict"
    r.extra["construct_x_frontend_matrix"] = matrix
    return r


def fingerprint(p):
    import hashlib
    return f"equiv:{p['name']}:{hashlib.sha256(p['file_src'].encode()).hexdigest()[:10]}"


def is_known(p, known):
    return fingerprint(p) in known


def replay(rec):
    return tcommon.replay_program(rec, "check_equiv", "lang", [], programs(), langs=LANG_ARG)
