"""C17 — event dispatch order and blocking (Engine S: z3 encoding of notify/event_return read from the AST)."""
import itertools
import multiprocessing as mp
import os
import time
import types

import z3

from vlib import common
from vlib.sengine import Exec, NotEncodable, Opt, SRef, State, Stub, cross_check_cvc5

BITS = 8
EVT = 3            # UNFLATTENED_GIR_LIST_GENERATED: present in the dispatch table
EVT_ABSENT = 9     # CONTROL_FLOW_GRAPH_GENERATED: a legal kind with no entry in the dispatch table

# language-set forms a handler can be registered with (what `register` accepts: str, list, set, tuple)
FORMS = [
    ("str:python", "python"),
    ("str:%", "%"),
    ("list:java", ["java"]),
    ("list:java,%", ["java", "%"]),
    ("set:python,java", {"python", "java"}),
    ("tuple:python", ("python",)),
    ("list:empty", []),
    ("list:py", ["py"]),
]
EVENT_LANGS = ["python", "py"]      # "py" is a substring of "python": catches substring matching on un-wrapped strings


def spec_matches(form_value, lang):
    langs = {form_value} if isinstance(form_value, str) else set(form_value)
    return lang in langs or "%" in langs


def fresh_env():
    common.setup_lian()
    import lian.events.event_return as er
    from lian.events.event_manager import EventManager
    return er, EventManager


def make_manager(EventManager, forms, handlers):
    em = EventManager.__new__(EventManager)
    em.options = types.SimpleNamespace(debug=False)
    em.event_handlers = {EVT: []}
    for (name, val), h in zip(forms, handlers):
        em.register(EVT, h, val)           # the real register/add_handler, run concretely
    return em


def encode_notify(forms, lang, event, word_bits=BITS):
    """Run the real notify symbolically.  Returns (executor, outcomes, vars, ghost ref)."""
    er, EventManager = fresh_env()
    k = len(forms)
    ex = Exec(word_bits=word_bits)
    ghost = SRef("ghost")
    none = [z3.Bool(f"none{i}") for i in range(k)]
    ret = [z3.BitVec(f"ret{i}", word_bits) for i in range(k)]
    w = [z3.Int(f"w{i}") for i in range(k)]
    D0, X0 = z3.Int("D0"), z3.Int("X0")

    def mk_handler(i):
        def fn(exe, st, args, kwargs):
            data = args[0]
            h = st.heap[data.oid]
            g = st.heap[ghost.oid]
            g[f"ran{i}"] = z3.BoolVal(True)
            g[f"time{i}"] = g["clock"]
            g["clock"] = g["clock"] + 1
            g[f"in{i}"] = h["in_data"]
            processed = z3.Or(none[i], ret[i] != 0)
            h["out_data"] = z3.If(processed, w[i], h["out_data"])
            return Opt(none[i], ret[i])
        return Stub(f"handler{i}", fn)

    handlers = [mk_handler(i) for i in range(k)]
    em = make_manager(EventManager, forms, handlers)
    data = SRef("data")
    st = State()
    st.heap[data.oid] = {"lang": lang, "event": event, "in_data": D0, "out_data": X0}
    gh = {"clock": z3.IntVal(0)}
    for i in range(k):
        gh[f"ran{i}"] = z3.BoolVal(False)
        gh[f"time{i}"] = z3.IntVal(-1)
        gh[f"in{i}"] = z3.IntVal(0)
    st.heap[ghost.oid] = gh
    outs = ex.call_function(EventManager.notify, [data], {}, st, bound_self=em)
    return ex, outs, dict(none=none, ret=ret, w=w, D0=D0, X0=X0, data=data, ghost=ghost, er=er)


def to_word(v, bits):
    if isinstance(v, z3.BitVecRef):
        return v
    if isinstance(v, int):
        return z3.BitVecVal(v, bits)
    raise NotEncodable(f"notify returned {v!r}")


def spec_and_violation(forms, lang, event, ex, o, V, bits=BITS):
    """z3 Bool: the outcome `o` violates the property (negated specification)."""
    k = len(forms)
    none, ret, w, D0 = V["none"], V["ret"], V["w"], V["D0"]
    g = o.state.heap[V["ghost"].oid]
    d = o.state.heap[V["data"].oid]
    result = to_word(o.value, bits)
    in_table = (event == EVT)
    acc = z3.BitVecVal(0, bits)
    stopped = z3.BoolVal(False)
    cur_in = D0
    bad = []
    times = []
    for i in range(k):
        m = in_table and spec_matches(forms[i][1], lang)
        runs = z3.And(z3.BoolVal(m), z3.Not(stopped))
        bad.append(g[f"ran{i}"] != runs)                                   # exactly the matching handlers run
        bad.append(z3.And(runs, g[f"in{i}"] != cur_in))                    # sees data of previous successful handler
        eff = z3.If(z3.And(runs, z3.Not(none[i])), ret[i], z3.BitVecVal(0, bits))
        acc = acc | eff
        processed = z3.And(runs, z3.Or(none[i], ret[i] != 0))
        cur_in = z3.If(processed, w[i], cur_in)
        stopped = z3.Or(stopped, z3.And(runs, (acc & 2) != 0))             # nothing runs after a blocking request
        times.append((runs, g[f"time{i}"]))
    for i in range(k):
        for j in range(i + 1, k):
            bad.append(z3.And(times[i][0], times[j][0], z3.Not(times[i][1] < times[j][1])))   # registration order
    bad.append(d["out_data"] != cur_in)                                    # what the requester reads afterwards
    # union of flags as observed through the five predicates
    er = V["er"]
    preds = [("is_event_unprocessed", lambda a: a == 0), ("is_event_successfully_processed", lambda a: a != 0),
             ("should_block_other_event_handlers", lambda a: (a & 2) != 0),
             ("should_block_event_requester", lambda a: (a & 4) != 0),
             ("should_interrupt_call", lambda a: (a & 8) != 0)]
    for name, spec in preds:
        st = State(o.state.pc)
        (st2, got), = ex.apply(getattr(er, name), [result], {}, st)
        got = ex.truth(got)
        got = z3.BoolVal(got) if isinstance(got, bool) else got
        bad.append(got != spec(acc))
    return z3.Or(*bad)


def decide(forms, lang, event, bits=BITS, want_model=True):
    """Returns dict(status, queries, solver_s, model?)."""
    t0 = time.time()
    ex, outs, V = encode_notify(forms, lang, event, bits)
    res = dict(status="unsat", outcomes=len(outs), feasible_paths=0)
    s = z3.Solver()
    qs = 0
    for pc, what in ex.may_raise:
        res["status"] = "sat"
        s2 = z3.Solver()
        s2.add(*pc)
        s2.check()
        res["model"] = model_to_dict(s2.model(), len(forms))
        res["what"] = "may raise: " + what
        break
    if res["status"] == "unsat":
        for o in outs:
            if o.kind != "return":
                res.update(status="sat", what=f"notify ends with {o.kind}: {o.value}")
                break
            s.push()
            s.add(*o.state.pc)
            qs += 1
            if s.check() == z3.sat:
                res["feasible_paths"] += 1
            viol = spec_and_violation(forms, lang, event, ex, o, V, bits)
            s.add(viol)
            r = s.check()
            qs += 1
            if r == z3.sat:
                res.update(status="sat", model=model_to_dict(s.model(), len(forms)), what="specification violated")
                s.pop()
                break
            if r == z3.unknown:
                res["status"] = "unknown"
            s.pop()
    res["queries"] = ex.queries + qs
    res["solver_s"] = round(ex.solver_s + (time.time() - t0) * 0.0, 3)
    res["time_s"] = round(time.time() - t0, 3)
    res["encoded"] = sorted(ex.encoded)
    return res


def model_to_dict(m, k):
    d = {"none": [], "ret": [], "w": []}
    for i in range(k):
        d["none"].append(bool(z3.is_true(m.eval(z3.Bool(f"none{i}"), model_completion=True))))
        d["ret"].append(m.eval(z3.BitVec(f"ret{i}", BITS), model_completion=True).as_long())
        d["w"].append(m.eval(z3.Int(f"w{i}"), model_completion=True).as_long())
    d["D0"] = m.eval(z3.Int("D0"), model_completion=True).as_long()
    d["X0"] = m.eval(z3.Int("X0"), model_completion=True).as_long()
    return d


# ---- native replay of a model on the real EventManager ------------------------------------------------
def replay_concrete(form_names, lang, event, model):
    er, EventManager = fresh_env()
    from lian.events.handler_template import EventData
    forms = [next(f for f in FORMS if f[0] == n) for n in form_names]
    k = len(forms)
    log = []

    def mk(i):
        def h(data):
            log.append((i, data.in_data))
            rv = None if model["none"][i] else model["ret"][i]
            if rv is None or rv != 0:
                data.out_data = ("w", i)
            return rv
        return h
    em = make_manager(EventManager, forms, [mk(i) for i in range(k)])
    data = EventData(lang, event, ("D0",), ("X0",))
    try:
        result = em.notify(data)
    except Exception as e:  # noqa
        return True, f"notify raised {type(e).__name__}: {e}"
    # reference, from the property text
    acc, stopped, cur = 0, False, ("D0",)
    exp = []
    for i in range(k):
        if event == EVT and spec_matches(forms[i][1], lang) and not stopped:
            exp.append((i, cur))
            rv = None if model["none"][i] else model["ret"][i]
            if rv is not None:
                acc |= rv
            if rv is None or rv != 0:
                cur = ("w", i)
            if acc & 2:
                stopped = True
    problems = []
    if log != exp:
        problems.append(f"handlers run/in_data {log} != expected {exp}")
    if data.out_data != cur:
        problems.append(f"out_data {data.out_data} != expected {cur}")
    checks = [(er.is_event_unprocessed, acc == 0), (er.is_event_successfully_processed, acc != 0),
              (er.should_block_other_event_handlers, bool(acc & 2)), (er.should_block_event_requester, bool(acc & 4)),
              (er.should_interrupt_call, bool(acc & 8))]
    for f, want in checks:
        if bool(f(result)) != want:
            problems.append(f"{f.__name__}(result={result}) != {want} (union of returned flags = {acc})")
    return bool(problems), "; ".join(problems)


# ---- helper kernels -------------------------------------------------------------------------------------
def kernel_obligations(run):
    er, _ = fresh_env()
    ex = Exec()
    x = z3.BitVec("x", BITS)
    g = z3.BitVec("g", BITS)
    ln = z3.Bool("l_none")
    l = z3.BitVec("l", BITS)
    specs = [
        ("is_event_successfully_processed", lambda v: v != 0), ("is_event_unprocessed", lambda v: v == 0),
        ("should_block_other_event_handlers", lambda v: (v & 2) != 0),
        ("should_block_event_requester", lambda v: (v & 4) != 0), ("should_interrupt_call", lambda v: (v & 8) != 0),
    ]
    n_q = 0

    def ask(name, formula, witness_vars):
        nonlocal n_q
        s = z3.Solver()
        s.add(formula)
        t0 = time.time()
        r = s.check()
        dt = time.time() - t0
        n_q += 1
        agrees, other = cross_check_cvc5([formula], str(r))
        ob = dict(name=name, engine="S", status=str(r), solver="z3 " + z3.get_version_string(), time_s=round(dt, 4),
                  cvc5=other, bounds={"flag word": f"{BITS}-bit, all values"})
        if agrees is False:
            run.harness_error(f"{name}: z3 says {r}, cvc5 says {other}")
        if r == z3.sat:
            m = s.model()
            ob["model"] = {str(v): str(m.eval(v, model_completion=True)) for v in witness_vars}
        run.add_obligation(**ob)
        run.counters["queries"] += 1
        run.counters["solver_s"] += dt
        run.counters["states"] += 1
        run.counters["transitions"] += 1
        return r, ob

    viol = []
    for name, spec in specs:
        (st, got), = ex.apply(getattr(er, name), [x], {}, State())
        got = ex.truth(got)
        r, ob = ask(f"kernel {name} == spec for all words", got != spec(x), [x])
        if r == z3.sat:
            viol.append((name, ob["model"]))
    for name, bit in [("config_continue_event_processing", 1), ("config_block_other_event_handlers", 2),
                      ("config_block_event_requester", 4), ("config_interrupt_call", 8)]:
        (st, got), = ex.apply(getattr(er, name), [x], {}, State())
        r, ob = ask(f"kernel {name} sets exactly bit {bit}", to_word(got, BITS) != (x | bit), [x])
        if r == z3.sat:
            viol.append((name, ob["model"]))
    (st, got), = ex.apply(er.config_event_unprocessed, [], {}, State())
    if got != 0:
        viol.append(("config_event_unprocessed", {"got": got}))
    # sync_event_return: through each predicate, sync(l, g) behaves as g | l  (None contributes nothing)
    outs = ex.apply(er.sync_event_return, [Opt(ln, l), g], {}, State())
    if ex.may_raise:
        viol.append(("sync_event_return", {"may_raise": ex.may_raise[0][1]}))
    for st, got in outs:
        got = to_word(got, BITS)
        union = z3.If(ln, g, g | l)
        for name, spec in specs:
            r, ob = ask(f"kernel {name}(sync_event_return(l,g)) == {name}(g|l)",
                        z3.And(*st.pc, spec(got) != spec(union)) if st.pc else spec(got) != spec(union), [ln, l, g])
            if r == z3.sat:
                viol.append(("sync_event_return/" + name, ob["model"]))
    # translator validation: encoding of sync_event_return vs the real function on a concrete grid
    enc = outs[0][1] if len(outs) == 1 else None
    mismatches, n_eval = 0, 0
    if enc is not None:
        grid = list(range(0, 32)) + [64, 128, 255, 129, 200]
        for lv in [None] + grid:
            for gv in grid:
                real = er.sync_event_return(lv, gv)
                sub = [(ln, z3.BoolVal(lv is None)), (l, z3.BitVecVal(lv or 0, BITS)), (g, z3.BitVecVal(gv, BITS))]
                val = z3.simplify(z3.substitute(to_word(enc, BITS), *sub)).as_long()
                n_eval += 1
                if val != (real & 0xFF):
                    mismatches += 1
        if mismatches:
            run.harness_error(f"translator validation: encoding of sync_event_return disagrees with the real function "
                              f"on {mismatches}/{n_eval} grid points")
    run.extra["translator_validation"] = {"function": "sync_event_return", "grid_points": n_eval, "mismatches": mismatches}
    for q in sorted(ex.encoded):
        pass
    return viol, sorted(ex.encoded)


PRED_SPECS = {
    "is_event_successfully_processed": lambda v: v != 0, "is_event_unprocessed": lambda v: v == 0,
    "should_block_other_event_handlers": lambda v: bool(v & 2), "should_block_event_requester": lambda v: bool(v & 4),
    "should_interrupt_call": lambda v: bool(v & 8),
}
CONFIG_BITS = {"config_continue_event_processing": 1, "config_block_other_event_handlers": 2,
               "config_block_event_requester": 4, "config_interrupt_call": 8}


def replay_kernel(name, model):
    """Native re-evaluation of a kernel counterexample on the real functions."""
    er, _ = fresh_env()
    try:
        if name in PRED_SPECS:
            x = int(model["x"])
            got = bool(getattr(er, name)(x))
            return got != PRED_SPECS[name](x), f"{name}({x}) = {got}"
        if name in CONFIG_BITS:
            x = int(model["x"])
            got = getattr(er, name)(x)
            return got != (x | CONFIG_BITS[name]), f"{name}({x}) = {got}"
        if name.startswith("sync_event_return/"):
            pred = name.split("/", 1)[1]
            l = None if model["l_none"] == "True" else int(model["l"])
            g = int(model["g"])
            got = er.sync_event_return(l, g)
            union = g if l is None else (g | l)
            return PRED_SPECS[pred](got) != PRED_SPECS[pred](union), f"sync_event_return({l},{g}) = {got}; union = {union}"
    except Exception as e:  # noqa
        return True, f"raised {type(e).__name__}: {e}"
    return True, "not replayable natively (reported as found)"


def default_table_check(run):
    """Concrete: every default registration names an event of the dispatch table and known languages."""
    common.setup_lian()
    import types as _t
    from lian.config import lang_config
    from lian.events.event_manager import EventManager
    em = EventManager(_t.SimpleNamespace(event_handlers=[], debug=False))
    known = {l.name for l in lang_config.LANG_TABLE} | {"%", "abc"}
    problems = []
    n = 0
    for ev, lst in em.event_handlers.items():
        for langs, h in lst:
            n += 1
            if isinstance(langs, str):
                problems.append(f"event {ev}: language set of {h} is a bare string {langs!r}")
            for l in langs:
                if l not in known:
                    problems.append(f"event {ev}: handler {getattr(h, '__name__', h)} registered for unknown language {l!r}")
    run.add_obligation(name="default registration table: events dispatched, languages known", engine="concrete",
                       status="held" if not problems else "failed", entries=n, problems=problems[:5])
    return problems


# ---- driver ---------------------------------------------------------------------------------------------
def _work(task):
    names, lang, event = task
    forms = [next(f for f in FORMS if f[0] == n) for n in names]
    try:
        r = decide(forms, lang, event)
    except NotEncodable as e:
        r = dict(status="not-encodable", what=str(e), queries=0, time_s=0, encoded=[])
    r["task"] = task
    return r


def tasks_for(tier):
    names = [f[0] for f in FORMS]
    tasks = []
    if tier == "quick":
        ks = {1: names, 2: names, 3: names, 4: names[:5]}
    else:
        ks = {1: names, 2: names, 3: names, 4: names, 5: names[:5], 6: ["str:python", "str:%", "list:java"]}
    for k, pool in ks.items():
        for combo in itertools.product(pool, repeat=k):
            for lang in EVENT_LANGS:
                tasks.append((list(combo), lang, EVT))
    for combo in itertools.product(names[:3], repeat=2):
        tasks.append((list(combo), "python", EVT_ABSENT))
    return tasks


def run(tier):
    r = common.Run("C17", tier, "model_checking")
    r.encoded.append(common.src_ref("src/lian/events/event_manager.py", "EventManager.notify",
                                    "EventManager.register (run concretely)", "EventManager.add_handler (run concretely)"))
    r.encoded.append(common.src_ref("src/lian/events/event_return.py", "sync_event_return", "is_event_*", "should_*",
                                    "config_*"))
    r.assumptions += [
        f"flag words are {BITS}-bit (all values), a handler returns None or any word",
        "a handler that reports the event processed (None or non-zero) writes out_data (fresh symbolic value); one that "
        "returns UNPROCESSED leaves out_data alone (the meaning of UNPROCESSED in event_return.py)",
        "None contributes no flags and counts as processed for the hand-over (DESIGN C17 reading)",
        "union of flags is observed through the five predicates a requester can apply, not bit-for-bit",
        "registrations are enumerated concretely through the real register(); the solver ranges over all return values, "
        "None-ness and data values",
    ]
    r.outside += ["more handlers than the bound; event data mutation in place (same object) by a handler"]
    viol, encoded = kernel_obligations(r)
    for name, model in viol:
        ok, detail = replay_kernel(name, model)
        if not ok:
            r.harness_error(f"kernel counterexample does not reproduce natively: {name} {model} {detail}")
            continue
        what = f"kernel {name} differs from its one-line specification, witness {model}: {detail}"
        r.report("kernel " + name, {"kernel": name, "model": model}, f"kernel:{name}", what)
    problems = default_table_check(r)
    for p in problems[:3]:
        r.report("default table", {"problem": p}, "default-table:" + p[:60], p)
    tasks = tasks_for(tier)
    t0 = time.time()
    with mp.Pool(min(16, os.cpu_count() or 4)) as pool:
        results = pool.map(_work, tasks, chunksize=8)
    n_unsat = 0
    seen_fp = set()
    feasible = 0
    for res in results:
        r.counters["queries"] += res.get("queries", 0)
        r.counters["solver_s"] += res.get("time_s", 0)
        r.counters["states"] += max(1, res.get("feasible_paths", 0))
        r.counters["transitions"] += max(1, res.get("outcomes", 0))
        feasible += res.get("feasible_paths", 0)
        if res["status"] == "unsat":
            n_unsat += 1
        elif res["status"] == "sat":
            names, lang, event = res["task"]
            if "model" not in res:
                r.harness_error(f"notify {res['task']}: {res.get('what')}")
                continue
            violated, detail = replay_concrete(names, lang, event, res["model"])
            if not violated:
                r.harness_error(f"counterexample does not reproduce on the real EventManager: {res['task']} {res['model']}")
                continue
            fp = f"notify:{'|'.join(names)}:{lang}:{event}"
            if len(seen_fp) < 5:
                seen_fp.add(fp)
                r.report("notify", {"forms": names, "lang": lang, "event": event, "model": res["model"]}, fp,
                         f"registration {names}, event language {lang}: {detail}")
            else:
                r.counters["replayed"] += 1
        elif res["status"] == "not-encodable":
            r.harness_error(f"notify not encodable for {res['task']}: {res.get('what')}")
    r.add_obligation(name="notify == specification for all return words / None / data values", engine="S",
                     status="unsat" if n_unsat == len(tasks) else f"{n_unsat}/{len(tasks)} unsat",
                     registrations=len(tasks), unsat=n_unsat, feasible_paths=feasible,
                     wall_s=round(time.time() - t0, 1),
                     bounds={"handlers": "k<=3 over 8 language-set forms, k=4 over 5 forms (quick); k<=4 over 8, k=5 over 5, k=6 over 3 forms (thorough)", "flag bits": BITS,
                             "language-set forms": [f[0] for f in FORMS], "event languages": EVENT_LANGS,
                             "event kinds": ["in dispatch table", "absent from dispatch table"]})
    if feasible == 0:
        r.harness_error("vacuity: no feasible path through notify")
    # cvc5 cross-check of one representative full query
    try:
        forms = [FORMS[0], FORMS[1], FORMS[2]]
        ex, outs, V = encode_notify(forms, "python", EVT)
        o = outs[0]
        f = z3.And(*o.state.pc, spec_and_violation(forms, "python", EVT, ex, o, V))
        agrees, other = cross_check_cvc5([f], "unsat")
        r.add_obligation(name="cvc5 re-decides a 3-handler notify query", engine="S", status="held" if agrees else "inconclusive",
                         cvc5=other)
        if agrees is False and other in ("sat",):
            r.harness_error(f"solvers disagree on the notify query: z3 unsat, cvc5 {other}")
    except Exception as e:  # noqa
        r.add_obligation(name="cvc5 re-decides a 3-handler notify query", engine="S", status="inconclusive", error=str(e))
    r.add_sample({"registration": ["str:python", "list:java,%", "set:python,java"], "event_language": "python",
                  "symbolic": "none_i: Bool, ret_i: BitVec8, w_i, D0, X0: Int", "query": "path condition AND NOT spec"})
    r.add_sample({"functions_encoded_from_AST": encoded})
    return r


def replay(rec):
    c = rec["cex"]
    if "forms" in c:
        return replay_concrete(c["forms"], c["lang"], c["event"], c["model"])
    if "kernel" in c:
        return replay_kernel(c["kernel"], c["model"])
    return True, c
