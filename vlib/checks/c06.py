"""C06 — reaching definitions are sound and flow-sensitive (Engine T on stmt_status_p3 + Engine X on the scheduler)."""
import copy

from vlib import common, progs, xrun
from vlib.checks import tcommon

TABLES = [("cfg", "semantic_p1/cfg.bundle*"), ("status", "semantic_p3/stmt_status_p3.bundle*")]
MS = "vlib.harness.h_sched"
LOOP_FP_PREFIX = "rd:"


def with_call(p):
    q = copy.deepcopy(p)
    q["src"] = q["src"] + "\nf(1, 2, True)\n"
    return q


def family(tier, seed):
    base, ctl = (progs.quick_family(seed) if tier == "quick" else progs.thorough_family(seed))
    base = [p for p in base if p["family"] in ("F-expr", "F-data", "F-fun")]
    loopfree = [p for p in base + ctl if not progs_has_loop(p)]
    loops = [p for p in base + ctl if progs_has_loop(p)]
    base = []
    return [with_call(p) for p in base + loopfree], [with_call(p) for p in loops]


def progs_has_loop(p):
    return "while " in p["src"] or "for " in p["src"]


def loop_witness():
    w = progs.prog("w_rd_loop_carried_def", "witness",
                   ["x = 0", "i = 0", "while i < a:", "    i = i + 1", "    x = 1", "return x"], bounds={"a": (0, 3)},
                   known="loop-carried definition missing after the loop")
    return with_call(w)


def run(tier):
    r = common.Run("C06", tier, "model_checking")
    r.encoded.append(common.src_ref("src/lian/core/prelim_semantics.py", "analyze_stmts / analyze_reachable_symbols (through main.py "
                                                                         "semantic; analyze_stmts also symbolically in the scheduler leg)"))
    r.encoded.append(common.src_ref("src/lian/core/global_semantics.py", "P3 (through main.py semantic)"))
    r.assumptions += [
        "soundness (solver): for every program and all entry arguments with every loop body run at most once (a, b in 0..1), at each "
        "executed use of a local variable the statement that last wrote it is in the in-set lian stores for the using statement "
        "(semantic_p3/stmt_status_p3, union over calling contexts)",
        "precision (concrete scan): on loop-free methods lian's in-sets for named variables equal the classical reaching-definitions "
        "solution over lian's own CFG",
        "programs get a top-level call f(1, 2, True) so that P3 analyses the entry from the unit initialiser",
        "programs with loops are confined to one witness while the scheduler defect is open (known_findings.json); loop-free "
        "programs are checked strictly",
    ]
    r.outside += ["implicit definitions through calls and fields", "more than two loop levels", "P2 tables (--enable-p2)"]
    strict, loops = family(tier, common.seed())
    wit = [loop_witness()]
    programs = strict + wit
    r.extra["excluded_because_known"] = {"programs with loops (scheduler removes the wrong statement from the worklist; witness "
                                         "w_rd_loop_carried_def)": len(loops)}

    def static(h, run_, programs_, skip):
        n_bad = 0
        n_methods = 0
        for i in range(len(programs_) - len(wit)):
            if i in skip:
                continue
            n_methods += 1
            for msg in h.classical_rd(i):
                n_bad += 1
                if n_bad <= 3:
                    run_.report("precision: in-sets == classical RD on loop-free methods", {"prog": programs_[i]["name"], "msg": msg},
                                f"rd-classical:{programs_[i]['name']}", f"{programs_[i]['name']}: {msg}\n{programs_[i]['src']}")
        run_.add_obligation(name="in-sets == classical reaching definitions over lian's CFG (loop-free methods, concrete scan)",
                            engine="concrete scan", status="held" if n_bad == 0 else "failed", programs=n_methods)
    tcommon.drive(r, programs, len(strict), "check_rd", "check_rd_reach", "last writer is in lian's reaching set for all arguments",
                  "semantic", TABLES, tier, static=static)
    # scheduler leg (Engine X): on acyclic CFGs the statement removed from the worklist is the statement analysed, every statement
    # is analysed, and every successor is analysed after its predecessor
    b = xrun.Batch(r)
    slices = [dict(n=4, mode="schedule", rounds=[2, 3], acyclic=True, fix={"0": [a], "1": [c]}) for a in (0, 1) for c in (0, 1)]
    b.add("scheduler on acyclic CFGs: removed == analysed, every statement analysed, successors after predecessors", MS,
          "check_scheduler", slices=slices, pct=300 if tier == "quick" else 1200, ppt=30,
          bounds={"statements": 4, "CFGs": "single entry, all reachable, acyclic", "max_round": [2, 3]})
    b.execute()
    # the minimal looping CFG, concretely: the open scheduler finding
    import importlib
    hs = importlib.import_module(MS)
    bits = [1 if e in ((1, 2), (2, 3), (3, 2)) else 0 for e in hs.edge_pairs(3)]
    res = hs.run_scheduler(3, bits, 2)
    kind, why = hs.judge(3, res, 2, "schedule")
    r.add_obligation(name="scheduler on the minimal loop 1->2->3->2 (witness of the open finding)", engine="concrete replay",
                     status="held" if not kind else "REFUTED_REPLAYED", detail=why)
    if kind:
        r.report("scheduler witness", {"edges": [[1, 2], [2, 3], [3, 2]], "max_round": 2}, "scheduler:loop:1-2-3-2", why)
    return r


def replay(rec):
    strict, loops = family("thorough", 0)
    return tcommon.replay_program(rec, "check_rd", "semantic", TABLES, strict + loops + [loop_witness()])
