"""C11 — reported flows are justified: kernel legs (Engine X): no fabricated taint on every small SFG; the sink tag comes
only from the rule-designated operand position."""
from vlib import common, xrun
from vlib.checks import taint_common as tc


def run(tier):
    r = common.Run("C11", tier, "model_checking")
    r.encoded.append(common.src_ref("src/lian/taint/taint_analysis.py", "PathFinder.propagate_taint (+helpers)",
                                    "TaintRuleApplier.get_sink_tag_by_rules", "TaintAnalysis.get_symbol_with_states_tag",
                                    "TaintAnalysis.get_stmt_used_symbol_and_state_by_pos"))
    r.assumptions += [
        "kernel legs only: (1) on a given state-flow graph propagation taints no more than the least fixpoint of the documented "
        "edge rules; (2) for a call_stmt sink rule the sink tag is the union of the tags of the operands at the positions the "
        "rule's targets designate (\\\\%argN -> operand N+1, \\\\%receiver -> 0, \\\\%target / empty -> any operand; an unknown target "
        "designates nothing and must not raise); a rule of another operation kind contributes nothing",
        "symbol ids and state ids are disjoint; operands of one statement occupy distinct positions",
    ]
    r.outside += ["program-level justification of reported flows (Engine T leg)",
                  "*_from_code.yaml rule sets"]
    b = xrun.Batch(r)
    if tier == "quick":
        b.add("propagate_taint taints <= least fixpoint on every SFG (2 symbols,1 state,1 stmt)", tc.M, "check_propagation",
              slices=tc.sfg_slices((2, 1, 1), "sound"), pct=400, ppt=30, twin="check_propagation_reach",
              twin_slice=dict(shape=[2, 1, 1], mode="sound", src=[0], op=[0]), bounds=tc.SFG_BOUNDS)
    else:
        for shape in ((2, 1, 1), (2, 2, 1), (2, 1, 2)):
            b.add(f"propagate_taint taints <= least fixpoint on every SFG {shape}", tc.M, "check_propagation",
                  slices=tc.sfg_slices(shape, "sound") if shape == (2, 1, 1) else
                  [s2 for c in range(2) for s2 in tc.sfg_slices(shape, "sound", extra_fix={"1": [c]})],
                  pct=3000, ppt=30, bounds=tc.SFG_BOUNDS)
    import importlib
    h = importlib.import_module(tc.M)
    b.add("get_sink_tag_by_rules: tag only from the designated operand positions", tc.M, "check_sink_positions",
          slices=[dict(t0=[t], op=[0], t1=([-1, 0, 6, 8] if tier == "quick" else None)) for t in range(len(h.TARGETS))]
          + [dict(t0=[0, 6, 7], op=[1], t1=[-1, 0])]
          + [dict(t0=[t], op=[2], t1=[-1, 0, 1, 5]) for t in (0, 1, 5, 6)],
          pct=300 if tier == "quick" else 1500, ppt=30,
          bounds={"operands": "positions 0..2 absent / clean / tainted", "targets": [str(t) for t in h.TARGETS],
                  "targets_per_rule": "1..2", "rule operation": "call_stmt / field_write / object_call (receiver at 0, arguments from 2)"})
    b.add("propagate_taint vs least fixpoint on the 2-symbol / 3-state template (state inclusion hierarchies)", tc.M,
          "check_propagation", slices=tc.template_slices("sound"), pct=400 if tier == "quick" else 1500, ppt=30,
          bounds=tc.TEMPLATE_BOUNDS)
    b.execute()
    r.add_sample({"call": "sink(a1, a2)", "rule": {"operation": "call_stmt", "name": "sink", "target": ["\\%arg1"]},
                  "tainted": ["a1"], "expected_sink_tag": 0})
    return r


def replay(rec):
    cex = rec["cex"]
    func = "check_sink_positions" if "sink" in rec["obligation"] else "check_propagation"
    out = xrun.replay_native(tc.M, func, cex.get("slice", {}), cex["cex"])
    return bool(out.get("violated")), out
