"""C11 — reported flows are justified: kernel legs (Engine X): no fabricated taint on every small SFG; the sink tag comes
only from the rule-designated operand position."""
import os

from vlib import common, xrun
from vlib.checks import taint_common as tc


def run(tier):
    r = common.Run("C11", tier, "model_checking")
    r.encoded.append(common.src_ref("src/lian/taint/taint_analysis.py", "PathFinder.propagate_taint (+helpers)",
                                    "TaintRuleApplier.get_sink_tag_by_rules", "TaintAnalysis.get_symbol_with_states_tag",
                                    "TaintAnalysis.get_stmt_used_symbol_and_state_by_pos"))
    r.assumptions += [
        "kernel legs only: (1) on a given state-flow graph propagation taints no more than the least fixpoint of the documented "
        "edge rules; (2) for a call_stmt sink rule the sink tag is the union of the tags of the operands at the positions the "
        "rule's targets designate (\\\\%argN -> operand N+1, \\\\%receiver -> 0, \\\\%target / empty -> any operand; an unknown target "
        "designates nothing and must not raise); a rule of another operation kind contributes nothing",
        "symbol ids and state ids are disjoint; operands of one statement occupy distinct positions",
    ]
    r.outside += ["*_from_code.yaml rule sets", "rules of operations other than call_stmt in the program leg",
                  "multi-file programs in the program leg"]
    b = xrun.Batch(r)
    if tier == "quick":
        b.add("propagate_taint taints <= least fixpoint on every SFG (2 symbols,1 state,1 stmt)", tc.M, "check_propagation",
              slices=tc.sfg_slices((2, 1, 1), "sound"), pct=400, ppt=30, twin="check_propagation_reach",
              twin_slice=dict(shape=[2, 1, 1], mode="sound", src=[0], op=[0]), bounds=tc.SFG_BOUNDS)
    else:
        for shape in ((2, 1, 1), (2, 2, 1), (2, 1, 2)):
            b.add(f"propagate_taint taints <= least fixpoint on every SFG {shape}", tc.M, "check_propagation",
                  slices=tc.sfg_slices(shape, "sound") if shape == (2, 1, 1) else
                  [s2 for c in range(2) for s2 in tc.sfg_slices(shape, "sound", extra_fix={"1": [c]})],
                  pct=3000, ppt=30, bounds=tc.SFG_BOUNDS)
    import importlib
    h = importlib.import_module(tc.M)
    b.add("get_sink_tag_by_rules: tag only from the designated operand positions", tc.M, "check_sink_positions",
          slices=[dict(t0=[t], op=[0], t1=([-1, 0, 6, 8] if tier == "quick" else None)) for t in range(len(h.TARGETS))]
          + [dict(t0=[0, 6, 7], op=[1], t1=[-1, 0])]
          + [dict(t0=[t], op=[2], t1=[-1, 0, 1, 5]) for t in (0, 1, 5, 6)]
          # rules restricted to a unit / a line: in scope they designate as before, out of scope they designate nothing,
          # alone or next to an unrestricted rule for the same callee
          + [dict(t0=[0, 1, 6], op=[0], t1=[-1, 0, 1], scope=sc, split=sp) for sc in (1, 2, 3, 4) for sp in (False, True)]
          + [dict(t0=[0, 5], op=[2], t1=[-1, 1], scope=sc, split=True) for sc in (2, 4)]
          # operands at positions 3..5 (arguments 2..4): every keyword designates its own position there too
          + [dict(t0=[t], op=[0], t1=[-1, 2, 3, 4], base=3) for t in (0, 2, 3, 4, 6, 7)],
          pct=300 if tier == "quick" else 1500, ppt=30,
          bounds={"operands": "positions 0..2 absent / clean / tainted", "targets": [str(t) for t in h.TARGETS],
                  "targets_per_rule": "1..2", "rule operation": "call_stmt / field_write / object_call (receiver at 0, arguments from 2)"})
    b.add("propagate_taint vs least fixpoint on the 2-symbol / 3-state template (state inclusion hierarchies)", tc.M,
          "check_propagation", slices=tc.template_slices("sound"), pct=400 if tier == "quick" else 1500, ppt=30,
          bounds=tc.TEMPLATE_BOUNDS)
    b.execute()
    program_leg(r, tier)
    r.add_sample({"call": "sink(a1, a2)", "rule": {"operation": "call_stmt", "name": "sink", "target": ["\\%arg1"]},
                  "tainted": ["a1"], "expected_sink_tag": 0})
    return r


FLOW_TABLES = [("flows", "@taint_flows")]
# configurations that need not see every program (their known findings are listed per program)
SUBSET = {"rules_for_another_language": ["t_direct", "t_param"]}


def run_config(name, programs):
    import copy
    from vlib import progs, tbatch
    rules = progs.taint_configs()[name][0]
    P = copy.deepcopy(programs)
    settings = progs.taint_settings(rules)
    langs = "python"
    if name.startswith("c_unit"):
        settings["entry.yaml"] = '- method_list: ["%unit_init", "f"]\n'
        langs = "c"
    _, info = tbatch.build_batch(P, cmd="run", tables=FLOW_TABLES, langs=langs, settings_files=settings)
    return P, info


def lines_of(p, flows):
    by = {x["stmt_id"]: x for x in p["rows"]}
    return {(int(by[s_]["start_row"]) + 1 if s_ in by else -1, int(by[k]["start_row"]) + 1 if k in by else -1) for s_, k in flows}


def flows_of(p):
    return {(f["source_stmt_id"], f["sink_stmt_id"]) for f in p.get("flows", [])}


def problems_of(p, rules):
    """[(kind, flow, text)] for one analysed program under one rule set"""
    from vlib import flowdep
    probs, d = flowdep.judge(p, flows_of(p), rules)
    out = []
    for flow, text in probs:
        kind = "no-source-rule" if "no configured source" in text else "no-sink-rule" if "no configured sink" in text else "no-dependence"
        out.append((kind, flow, text))
    return out, d


def program_leg(r, tier):
    """Engine T + z3: the real `main.py run` under every rule set of progs.taint_configs(); every reported flow must start at a
    statement matching a source rule in scope, end at one matching a sink rule in scope, and the designated argument must depend
    on the source value under vlib.flowdep's reading (z3 decides each dependence as Horn entailment)."""
    from concurrent.futures import ThreadPoolExecutor
    from vlib import flowdep, progs, tbatch
    from vlib.checks import tcommon
    r.encoded.append(common.src_ref("src/lian/taint/taint_analysis.py", "TaintAnalysis.run / find_sources / find_sinks / find_flows "
                                    "(executed concretely through main.py run)"))
    r.assumptions += [
        "program leg: a reported flow (s, k) is justified iff s matches a source rule and k a sink rule (operation, callee name "
        "-- syntactic or through an alias the Horn system derives --, language, unit name, line) and z3 answers unsat for "
        "Horn(program) /\\ T(target of s) /\\ not T(designated argument of k); the Horn system is the coarsest reading accepted: "
        "flow-insensitive, context-insensitive, object-granular (one cell per object/container), user variables merged by name, "
        "calls additionally opaque (result depends on every argument and the receiver)",
        "rule sets: " + ", ".join(progs.taint_configs()),
        "'adding rules never removes flows' is checked between `base` and each extended rule set, flows identified by (source line, sink line)",
    ]
    base_programs = progs.family_taint_justified()
    cfgs = progs.taint_configs()
    todo = {name: [p for p in base_programs if name not in SUBSET or p["name"] in SUBSET[name]] for name in cfgs}
    for name in cfgs:
        if name.startswith("c_unit"):
            todo[name] = progs.family_taint_c()
    with ThreadPoolExecutor(5) as ex:
        results = dict(zip(todo, ex.map(lambda n: run_config(n, todo[n]), todo)))
    reported = {}
    queries = 0
    for name, (P, info) in results.items():
        rules, relation = cfgs[name]
        ob = f"program leg: reported flows are justified under rule set `{name}`"
        if info["rc"] != 0:
            r.harness_error(f"lian run failed under rule set {name} (rc={info['rc']}): {info['log_tail'][-300:]}")
            continue
        bad, n_flows, skipped = 0, 0, []
        reported[name] = {}
        for p in P:
            fl = flows_of(p)
            reported[name][p["name"]] = lines_of(p, fl)
            n_flows += len(fl)
            try:
                probs, d = problems_of(p, rules)
            except flowdep.Unsupported as e:
                skipped.append(f"{p['name']}: {e}")
                continue
            queries += d.queries
            r.counters["queries"] += d.queries
            r.counters["solver_s"] += d.solver_s
            for kind, flow, text in probs:
                bad += 1
                r.report(ob, dict(cex=dict(kind="flow", config=name, prog=p["name"], flow=list(flow), problem=kind), slice=None),
                         f"flow:{name}:{kind}:{p['name']}:{p['hash']}",
                         f"rule set `{name}`, program {p['name']}: reported flow {flow}: {text}\n{p['src']}")
            if relation == "empty" and fl and not probs:
                bad += 1
                r.report(ob, dict(cex=dict(kind="flow", config=name, prog=p["name"], flow=[], problem="not-empty"), slice=None),
                         f"flow:{name}:not-empty:{p['name']}:{p['hash']}",
                         f"rule set `{name}` has no applicable source or sink rule, yet flows are reported for {p['name']}: {sorted(fl)}")
        r.add_obligation(name=ob, engine="T+z3", status="held" if bad == 0 else "violated", programs=len(P), flows_reported=n_flows,
                         not_judged=skipped, rules=[{k: v for k, v in x.items()} for x in rules])
        r.counters["programs"] += len(P)
    for name, (rules, relation) in cfgs.items():
        if relation != "superset" or name not in reported or "base" not in reported:
            continue
        ob = f"program leg: every flow of `base` is still reported under `{name}`"
        bad = 0
        for pn, fl in reported["base"].items():
            lost = fl - reported[name].get(pn, set())
            if lost:
                bad += 1
                p = next(x for x in base_programs if x["name"] == pn)
                r.report(ob, dict(cex=dict(kind="lost", config=name, prog=pn, lost=sorted(lost)), slice=None),
                         f"flow-lost:{name}:{pn}", f"adding rules ({name}) removed the flow(s) (source line, sink line) {sorted(lost)} of {pn}\n{p['src']}")
        r.add_obligation(name=ob, engine="T", status="held" if bad == 0 else "violated", programs=len(reported["base"]))
    r.extra["flows_reported_by_rule_set"] = {n: sum(len(v) for v in d.values()) for n, d in reported.items()}
    # oracle sanity, solver-decided: for all inputs, what dynamically arrives at a sink argument is a dependence of the reading
    P = results["base"][0] if "base" in results else []
    ok = []
    for p in P:
        try:
            d = flowdep.decider_for(p)
        except flowdep.Unsupported:
            continue
        by = d.h.u.by_id
        srcs = [x for x in by.values() if x["operation"] == "call_stmt" and d.may_be(x, "source")]
        snks = [x for x in by.values() if x["operation"] == "call_stmt" and d.may_be(x, "sink")]
        p["dep"] = [[s_["stmt_id"], k["stmt_id"], i] for s_ in srcs for k in snks for i, a in enumerate(flowdep.r_pos(k))
                    if d.depends(s_, k, a)]
        r.counters["queries"] += d.queries
        ok.append(p)
    if ok:
        path = tbatch.save_batch({"programs": ok})
        try:
            side = common.Run("C11", tier, "model_checking")
            side.known = []
            b = xrun.Batch(side)
            b.add("oracle sanity: for all inputs, a source value arriving at a sink argument is a dependence of the reading", tcommon.M,
                  "check_dep_oracle", slices=[dict(batch=path, range=[lo, min(lo + 6, len(ok))], skip=[]) for lo in range(0, len(ok), 6)],
                  pct=300, ppt=30, bounds={"inputs": "unbounded ints a, b; bool c"})
            b.execute()
            r.obligations += side.obligations
            r.harness_errors += side.harness_errors
            for v in side.violations:
                r.harness_error("the dependence oracle is not an over-approximation: " + v["what"][:300])
        finally:
            os.unlink(path)


def replay(rec):
    cex = rec["cex"]
    if isinstance(cex.get("cex"), dict) and cex["cex"].get("kind") in ("flow", "lost"):
        from vlib import progs
        c = cex["cex"]
        prog = [p for p in progs.family_taint_justified() + progs.family_taint_c() if p["name"] == c["prog"]]
        if not prog:
            return False, f"program {c['prog']} is no longer in the family"
        rules = progs.taint_configs()[c["config"]][0]
        P, info = run_config(c["config"], prog)
        if c["kind"] == "lost":
            B, _ = run_config("base", prog)
            lost = lines_of(B[0], flows_of(B[0])) - lines_of(P[0], flows_of(P[0]))
            return bool(lost), {"lost": sorted(lost)}
        if c["problem"] == "not-empty":
            return bool(flows_of(P[0])), {"flows": sorted(flows_of(P[0]))}
        probs, _ = problems_of(P[0], rules)
        same = [t for k, f, t in probs if k == c["problem"]]
        return bool(same), {"problems": same, "flows": sorted(flows_of(P[0]))}
    func = "check_sink_positions" if "sink" in rec["obligation"] else "check_propagation"
    out = xrun.replay_native(tc.M, func, cex.get("slice", {}), cex["cex"])
    return bool(out.get("violated")), out
