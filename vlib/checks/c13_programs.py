"""C13 program leg (measurement, labelled so): the real pipeline (main.py run, repository default settings) on hostile program shapes;
every run must end within a generous wall-clock bound, and the number of method analyses of the top-down phase (a deterministic
count read from the console, independent of machine load) must stay within a polynomial bound on a call chain with two call sites
per function."""
import os
import re
import shutil
import subprocess
import tempfile
import time

from vlib import common, tengine

TIMEOUT = 420          # seconds per program; the unchanged tree needs 5-20 s (x3 on a loaded machine)


def chain(n):
    L = [f"def f{n}(x):\n    return x + 1\n"]
    for i in range(n - 1, 0, -1):
        L.append(f"def f{i}(x):\n    a = f{i + 1}(x)\n    b = f{i + 1}(x + 1)\n    return a + b\n")
    L.append("f1(inp(0))\n")
    return "\n".join(L)


PROGRAMS = {
    "direct_recursion": {"m.py": "def fact(n):\n    if n <= 1:\n        return 1\n    return n * fact(n - 1)\n\nfact(inp(0))\n"},
    "mutual_recursion_with_unresolved_call": {"m.py": "def f(x):\n    return g(x - 1)\n\ndef g(x):\n    return h(x - 1)\n\ndef h(x):\n    log_value(x)\n    if x > 0:\n        return f(x)\n    return 0\n\nf(inp(0))\n"},
    "callback_recursion": {"m.py": "def walk(fn, n):\n    if n > 0:\n        return fn(walk, n - 1)\n    return 0\n\ndef step(w, n):\n    return w(step, n)\n\nwalk(step, inp(0))\n"},
    "self_application": {"m.py": "def ap(f, x):\n    return f(f, x)\n\ndef body(g, x):\n    if x > 0:\n        return g(g, x - 1)\n    return x\n\nap(body, inp(0))\n"},
    "object_ring_returned_by_callee": {"m.py": "class N:\n    def __init__(self, v):\n        self.v = v\n        self.next = None\n\ndef ring():\n    a = N(1)\n    b = N(2)\n    a.next = b\n    b.next = a\n    return a\n\nr = ring()\nt = r.next.next.v\nsink(t)\n"},
    "object_ring_into_sink": {"m.py": "class N:\n    def __init__(self, v):\n        self.v = v\n        self.next = None\n\na = N(sourc())\nb = N(2)\na.next = b\nb.next = a\nsink(b.next)\n"},
    "tainted_method_calls": {"m.py": "data = sourc()\nitems = []\nitems.append(data)\nu = data.strip()\nv = u.lower()\nsink(v)\n"},
    "taint_in_loop_with_carried_copy": {"m.py": "prev = 0\nfor i in range(inp(0)):\n    cur = sourc()\n    sink(prev)\n    prev = cur\n"},
    "nested_loops_four_deep": {"m.py": "def f(n):\n    s = 0\n    for a in range(n):\n        for b in range(n):\n            for c in range(n):\n                for d in range(n):\n                    s = s + a * b - c * d\n    return s\n\nf(inp(0))\n"},
    "cyclic_imports": {"a.py": "from b import gb\n\ndef ga(x):\n    if x > 0:\n        return gb(x - 1)\n    return 0\n\nga(inp(0))\n", "b.py": "from a import ga\n\ndef gb(x):\n    return ga(x - 1)\n"},
    "cyclic_class_hierarchy_names": {"m.py": "class A(object):\n    def m(self):\n        return B().m2()\n\nclass B(A):\n    def m2(self):\n        return A().m()\n\nA().m()\n"},
    "chain_8": {"m.py": chain(8)},
    "chain_12": {"m.py": chain(12)},
}
# method analyses allowed on the chain of n functions with two call sites each (the unchanged tree needs about 7 n)
CHAIN_BOUND = {"chain_8": 40 * 8, "chain_12": 40 * 12}


def run_one(name):
    files = PROGRAMS[name]
    root = tempfile.mkdtemp(prefix=f"lian-verif-c13-{os.getpid()}-")
    try:
        for rel, text in files.items():
            p = os.path.join(root, "in", rel)
            os.makedirs(os.path.dirname(p), exist_ok=True)
            with open(p, "w") as f:
                f.write(text)
        env = dict(os.environ, PYTHONPATH=common.SRC, PYTHONHASHSEED="0", PYTHONDONTWRITEBYTECODE="1")
        t0 = time.time()
        proc = subprocess.Popen([tengine.PY, os.path.join(common.SRC, "lian", "main.py"), "run", "-f", "-l", "python", "--nomock", "in", "-w", "ws"],
                                cwd=root, stdout=subprocess.PIPE, stderr=subprocess.STDOUT, text=True, env=env, start_new_session=True)
        try:
            out, _ = proc.communicate(timeout=TIMEOUT)
            rc = proc.returncode
        except subprocess.TimeoutExpired:
            import signal
            os.killpg(proc.pid, signal.SIGKILL)
            out, _ = proc.communicate()
            rc = "timeout"
        wall = time.time() - t0
        analyses = len(re.findall(r"^Analyzing <method", out or "", flags=re.M))
        return dict(name=name, rc=rc, wall_s=round(wall, 1), analyses=analyses, tail=(out or "")[-300:])
    finally:
        shutil.rmtree(root, ignore_errors=True)


def run_leg(r, tier):
    from concurrent.futures import ThreadPoolExecutor
    r.assumptions.append(
        f"program leg (measurement, labelled so): {len(PROGRAMS)} hostile shapes (recursion, mutual recursion reaching an unresolved call, "
        "callback recursion, self-application, object rings through a callee and into a sink, tainted method calls, loop-carried taint, "
        "4-deep loops, cyclic imports, classes instantiating each other, call chains of 8 and 12 functions with two call sites each) "
        f"through the real main.py run: each ends within {TIMEOUT} s with exit code 0, and the chains need at most 40 n method analyses "
        "(count of `Analyzing <method` lines: deterministic, unaffected by load)")
    with ThreadPoolExecutor(6) as ex:
        results = list(ex.map(run_one, PROGRAMS))
    for res in results:
        name = res["name"]
        ob = f"program leg: the pipeline ends on `{name}`"
        why = None
        if res["rc"] == "timeout":
            why = f"no end within {TIMEOUT} s ({res['analyses']} method analyses so far)"
        elif res["rc"] != 0:
            why = f"exit code {res['rc']}: {res['tail'][-200:]}"
        elif name in CHAIN_BOUND and res["analyses"] > CHAIN_BOUND[name]:
            why = f"{res['analyses']} method analyses for a chain of {name.split('_')[1]} functions (bound {CHAIN_BOUND[name]}): growth is not polynomial"
        r.add_obligation(name=ob, engine="measurement", status="held" if why is None else "violated", wall_s=res["wall_s"],
                         method_analyses=res["analyses"])
        r.counters["programs"] += 1
        if why:
            r.report(ob, dict(cex=dict(kind="program", program=name), slice=None), f"pipeline:{name}",
                     f"hostile program `{name}`: {why}\n" + "\n".join(f"# {k}\n{v}" for k, v in PROGRAMS[name].items())[:1500])


def replay(rec):
    res = run_one(rec["cex"]["cex"]["program"])
    bad = res["rc"] != 0 or (res["name"] in CHAIN_BOUND and res["analyses"] > CHAIN_BOUND[res["name"]])
    return bad, res
