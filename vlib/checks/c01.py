"""C01 — lowering Python to GIR preserves behaviour (Engine T: CPython vs reference GIR interpreter on lian's rows,
symbolic entry arguments)."""
import importlib
import os

from vlib import common, progs, tbatch, xrun

M = "vlib.harness.h_prog"
CHUNK = 12


def run(tier):
    r = common.Run("C01", tier, "translation_validation")
    r.encoded.append(common.src_ref("src/lian/lang/python_parser.py", "(executed concretely through main.py lang)"))
    r.encoded.append(common.src_ref("src/lian/lang/lang_analysis.py", "GIRProcessing.flatten (through main.py)"))
    r.encoded.append(common.src_ref("src/lian/events/default_event_handlers/add_var_decl.py", "adjust_variable_decls (through main.py)"))
    r.encoded.append(common.src_ref("src/lian/events/default_event_handlers/basic.py", "unify_python_self, add_main_func (through main.py)"))
    r.assumptions += [
        "per program the solver (CrossHair/z3) decides 'CPython(source) == reference interpreter(lian's GIR rows)' for all entry "
        "arguments: unbounded ints a, b and bool c for loop-free programs; a in 0..3, b in 0..2 where they bound loops or indices",
        "the program family is a bound: F-expr, F-fun, F-cls, F-data (hand-enumerated forms) and F-ctl (all statement skeletons "
        "up to the size bound over assign/out/return/if/if-else/while/for-range/break/continue)",
        "the reference GIR interpreter (vlib/gir_interp.py, DESIGN section 10) is trusted base",
        "what is symbolically executed is the analysed program and lian's output for it; lian's frontend itself runs concretely",
    ]
    r.outside += ["programs outside the family", "floats, generators, async, with, match, decorators, comprehensions, try/except",
                  "text-level import rewriting"]
    seed = common.seed()
    base, ctl = (progs.quick_family(seed) if tier == "quick" else progs.thorough_family(seed))
    known_excluded = [p["name"] for p in ctl if p.get("stale_continue")]
    ctl = [p for p in ctl if not p.get("stale_continue")]
    wit = progs.witnesses()
    programs = base + ctl + wit
    batch, info = tbatch.build_batch(programs, cmd="lang")
    r.extra["lian_run"] = info
    if info["rc"] != 0 or not any(p["rows"] for p in programs):
        r.harness_error(f"lian lang failed on the batch (rc={info['rc']}): {info['log_tail'][-400:]}")
        return r
    path = tbatch.save_batch(batch)
    try:
        h = importlib.import_module(M)
        screen = h.prescreen(path)
        unsupported = {i: s for i, s in enumerate(screen) if s != "ok"}
        empty = [i for i, p in enumerate(programs) if not p["rows"]]
        r.extra["programs_generated"] = len(programs)
        r.extra["excluded_because_known"] = {"continue inside while (stale loop condition; witness w_continue_stale_condition)":
                                             len(known_excluded)}
        r.extra["not_executable_by_reference_interpreter"] = {programs[i]["name"]: s for i, s in unsupported.items()}
        for i in empty:
            r.harness_error(f"lian emitted no GIR for {programs[i]['name']}")
        n_main = len(base) + len(ctl)
        skip = sorted(set(unsupported) | set(empty))
        slices = []
        from vlib.checks import tcommon
        for rg in tcommon.ranges(programs, n_main, CHUNK):
            slices.append(dict(batch=path, range=rg, skip=skip))
        wslices = [dict(batch=path, range=[i, i + 1], skip=[]) for i in range(n_main, len(programs)) if i not in skip]
        pct = 300 if tier == "quick" else 1200
        rounds = 0
        pending = slices + wslices
        covered = set()
        while pending and rounds < 4:
            rounds += 1
            b = xrun.Batch(r)
            b.add(f"CPython == GIR for all arguments (round {rounds})", M, "check_equiv", slices=pending, pct=pct, ppt=30,
                  twin="check_equiv_reach" if rounds == 1 else None, twin_slice=dict(batch=path, range=[0, 1], skip=[]),
                  bounds={"programs_per_slice": CHUNK, "a,b": "unbounded ints (loop-free) / a in 0..3, b in 0..2", "c": "bool"})
            n_before = len(r.obligations)
            b.execute()
            nxt = []
            for ob in r.obligations[n_before:]:
                s = ob.get("slice")
                if not s or "range" not in s:
                    continue
                if ob["status"] == "REFUTED_REPLAYED" and s["range"][1] - s["range"][0] > 1:
                    bad = [v["cex"]["cex"]["pidx"] for v in r.violations if v["cex"]["slice"] == s] + \
                          [c["cex"]["pidx"] for e, c in r.known_hits if c.get("slice") == s]
                    nxt.append(dict(batch=path, range=s["range"], skip=sorted(set(s.get("skip", [])) | set(bad))))
                elif ob["status"] == "CONFIRMED":
                    covered |= set(range(s["range"][0], s["range"][1])) - set(s.get("skip", []))
            pending = nxt
        r.counters["programs"] = len(programs) - len(skip)
        r.extra["programs_confirmed_for_all_arguments"] = len(covered)
        for p in (programs[0], programs[len(base) + 5], programs[-1]):
            r.add_sample({"name": p["name"], "source": p["src"], "gir_rows": len(p["rows"])})
    finally:
        os.unlink(path)
    project_size_leg(r, tier)
    return r


def big_project(n):
    return [dict(name=f"big{i:04d}", src=f"def f(a, b, c):\n    return a + {i}\n") for i in range(n)]


def project_size_leg(r, tier):
    """One project of many small files: every file must get GIR (a file without GIR has no behaviour to preserve), and the
    files lian numbered first and last are decided like the others."""
    n = 1100 if tier == "quick" else 3000
    programs = big_project(n)
    batch, info = tbatch.build_batch(programs, cmd="lang")
    r.extra["lian_run_project_size"] = {k: info[k] for k in ("rc", "wall_s", "cmd")}
    if info["rc"] != 0:
        r.harness_error(f"lian lang failed on the {n}-file project (rc={info['rc']}): {info['log_tail'][-400:]}")
        return
    empty = [p["name"] for p in programs if not p["rows"]]
    name = f"every file of a {n}-file project gets GIR"
    if empty:
        r.add_obligation(name=name, engine="T", status="violated", files=n, without_gir=len(empty))
        r.report(name, dict(cex=dict(kind="nogir", prog=empty[0], n=n), slice=None), f"nogir:{n}",
                 f"{len(empty)} of the {n} files of one project got no GIR at all (first: {empty[0]}.py), without any message")
        return
    r.add_obligation(name=name, engine="T", status="held", files=n, without_gir=0)
    order = sorted(range(n), key=lambda i: programs[i]["unit_id"])
    picked = order[:CHUNK] + order[-CHUNK:]
    sub = {"programs": [programs[i] for i in picked]}
    path = tbatch.save_batch(sub)
    try:
        b = xrun.Batch(r)
        b.add(f"CPython == GIR for the first and last {CHUNK} units of the {n}-file project", M, "check_equiv",
              slices=[dict(batch=path, range=[0, CHUNK], skip=[]), dict(batch=path, range=[CHUNK, 2 * CHUNK], skip=[])],
              pct=300, ppt=30, bounds={"a,b": "unbounded ints", "c": "bool", "files": n})
        b.execute()
        r.counters["programs"] += len(picked)
    finally:
        os.unlink(path)


def replay(rec):
    """Re-run lian on the recorded program and compare on the recorded arguments."""
    cex = rec["cex"]["cex"]
    if cex.get("kind") == "nogir":
        programs = big_project(cex["n"])
        tbatch.build_batch(programs, cmd="lang")
        empty = [p["name"] for p in programs if not p["rows"]]
        return bool(empty), {"files": cex["n"], "without_gir": len(empty), "first": empty[:3]}
    name = cex["prog"]
    allp = {p["name"]: p for p in sum(progs.thorough_family(0), []) + progs.witnesses()}
    if name not in allp:
        return False, f"program {name} is no longer in the family"
    p = allp[name]
    batch, info = tbatch.build_batch([p], cmd="lang")
    path = tbatch.save_batch(batch)
    try:
        out = xrun.replay_native(M, "check_equiv", dict(batch=path, range=[0, 1]), dict(cex, pidx=0))
    finally:
        os.unlink(path)
    return bool(out.get("violated")), out
