"""Core language of C02 and its renderers to the seven frontends (Python is the reference rendering)."""

# expressions: ('v', name) ('i', n) ('b', bool) ('bin', op, l, r) ('not', e) ('neg', e) ('call', fname, [args])
# statements : ('let', name, e) ('set', name, e) ('out', e) ('if', c, then, else|None) ('while', c, body)
#              ('for', var, lo, hi, body) ('break',) ('continue',) ('ret', e) ('expr', e)
# function   : (name, [param names], body); params named c* are booleans, everything else int

LANGS = {
    "python": ".py", "javascript": ".js", "typescript": ".ts", "java": ".java", "go": ".go", "c": ".c", "php": ".php",
}


def is_bool(name):
    return name.startswith("c")


class R:
    """base renderer (C-like syntax)"""
    AND, OR, NOT = "&&", "||", "!"
    TRUE, FALSE = "true", "false"

    def var(self, n):
        return n

    def e(self, x):
        k = x[0]
        if k == "v":
            return self.var(x[1])
        if k == "i":
            return str(x[1])
        if k == "b":
            return self.TRUE if x[1] else self.FALSE
        if k == "bin":
            op = {"and": self.AND, "or": self.OR}.get(x[1], x[1])
            return f"({self.e(x[2])} {op} {self.e(x[3])})"
        if k == "binraw":
            op = {"and": self.AND, "or": self.OR}.get(x[1], x[1])
            return f"{self.e(x[2])} {op} {self.e(x[3])}"
        if k == "tern":
            return self.tern(x)
        if k == "not":
            return f"({self.NOT}{self.e(x[1])})" if self.NOT != "not" else f"(not {self.e(x[1])})"
        if k == "neg":
            return f"(-{self.e(x[1])})"
        if k == "call":
            return f"{self.fname(x[1])}({', '.join(self.e(a) for a in x[2])})"
        raise ValueError(k)

    def fname(self, n):
        return n

    def tern(self, x):
        return f"({self.e(x[1])} ? {self.e(x[2])} : {self.e(x[3])})"

    ELSEIF = "} else if ("
    FOREVER = "while (true)"

    def ifchain(self, st, ind):
        out = []
        for n, (c, body) in enumerate(st[1]):
            out += [f"{ind}if ({self.e(c)}) {{" if n == 0 else f"{ind}{self.ELSEIF}{self.e(c)}) {{"] + self.block(body, ind + "    ")
        if st[2] is not None:
            out += [f"{ind}}} else {{"] + self.block(st[2], ind + "    ")
        return out + [f"{ind}}}"]

    def aug(self, st, ind):
        return [f"{ind}{self.var(st[1])} {st[2]}= {self.e(st[3])};"]

    def incdec(self, st, ind):
        return [f"{ind}{self.var(st[1])}{'++' if st[0] == 'inc' else '--'};"]

    def block(self, stmts, ind):
        out = []
        for s in stmts:
            out += self.s(s, ind)
        return out

    def let(self, name, e, ind):
        return [f"{ind}int {name} = {self.e(e)};"]

    def s(self, st, ind):
        k = st[0]
        if k == "let":
            return self.let(st[1], st[2], ind)
        if k == "set":
            return [f"{ind}{self.var(st[1])} = {self.e(st[2])};"]
        if k == "out":
            return [f"{ind}out({self.e(st[1])});"]
        if k == "expr":
            return [f"{ind}{self.e(st[1])};"]
        if k == "ret":
            return [f"{ind}return {self.e(st[1])};"]
        if k == "break":
            return [f"{ind}break;"]
        if k == "continue":
            return [f"{ind}continue;"]
        if k == "if":
            out = [f"{ind}if ({self.e(st[1])}) {{"] + self.block(st[2], ind + "    ")
            if st[3] is not None:
                out += [f"{ind}}} else {{"] + self.block(st[3], ind + "    ")
            return out + [f"{ind}}}"]
        if k == "while":
            return [f"{ind}while ({self.e(st[1])}) {{"] + self.block(st[2], ind + "    ") + [f"{ind}}}"]
        if k == "for":
            return self.for_(st, ind)
        if k == "ifchain":
            return self.ifchain(st, ind)
        if k == "loop":
            return [f"{ind}{self.FOREVER} {{"] + self.block(st[1], ind + "    ") + [f"{ind}}}"]
        if k == "for_noupd":
            return self.for_noupd(st, ind)
        if k == "aug":
            return self.aug(st, ind)
        if k in ("inc", "dec"):
            return self.incdec(st, ind)
        raise ValueError(k)

    def for_(self, st, ind):
        v = self.var(st[1])
        return [f"{ind}for (int {v} = {self.e(st[2])}; {v} < {self.e(st[3])}; {v}++) {{"] + self.block(st[4], ind + "    ") + [f"{ind}}}"]

    FOR_DECL = "int "

    def for_noupd(self, st, ind):
        """for with an initialiser and a condition but no update part (the body advances the variable)"""
        v = self.var(st[1])
        return [f"{ind}for ({self.FOR_DECL}{v} = {self.e(st[2])}; {v} < {self.e(st[3])}; ) {{"] + self.block(st[4], ind + "    ") + [f"{ind}}}"]


class Py(R):
    AND, OR, NOT = "and", "or", "not"
    TRUE, FALSE = "True", "False"

    def let(self, name, e, ind):
        return [f"{ind}{name} = {self.e(e)}"]

    def s(self, st, ind):
        k = st[0]
        if k == "set":
            return [f"{ind}{st[1]} = {self.e(st[2])}"]
        if k == "out":
            return [f"{ind}out({self.e(st[1])})"]
        if k == "expr":
            return [f"{ind}{self.e(st[1])}"]
        if k == "ret":
            return [f"{ind}return {self.e(st[1])}"]
        if k == "break":
            return [f"{ind}break"]
        if k == "continue":
            return [f"{ind}continue"]
        if k == "if":
            out = [f"{ind}if {self.e(st[1])}:"] + self.block(st[2], ind + "    ")
            if st[3] is not None:
                out += [f"{ind}else:"] + self.block(st[3], ind + "    ")
            return out
        if k == "while":
            return [f"{ind}while {self.e(st[1])}:"] + self.block(st[2], ind + "    ")
        if k == "for":
            return [f"{ind}for {st[1]} in range({self.e(st[2])}, {self.e(st[3])}):"] + self.block(st[4], ind + "    ")
        if k == "loop":
            return [f"{ind}while True:"] + self.block(st[1], ind + "    ")
        if k == "for_noupd":
            return [f"{ind}{st[1]} = {self.e(st[2])}", f"{ind}while {st[1]} < {self.e(st[3])}:"] + self.block(st[4], ind + "    ")
        return R.s(self, st, ind)

    def block(self, stmts, ind):
        return R.block(self, stmts, ind) or [f"{ind}pass"]

    def tern(self, x):
        return f"({self.e(x[2])} if {self.e(x[1])} else {self.e(x[3])})"

    def ifchain(self, st, ind):
        out = []
        for n, (c, body) in enumerate(st[1]):
            out += [f"{ind}{'if' if n == 0 else 'elif'} {self.e(c)}:"] + self.block(body, ind + "    ")
        if st[2] is not None:
            out += [f"{ind}else:"] + self.block(st[2], ind + "    ")
        return out

    def aug(self, st, ind):
        return [f"{ind}{st[1]} {st[2]}= {self.e(st[3])}"]

    def incdec(self, st, ind):
        return [f"{ind}{st[1]} = {st[1]} {'+' if st[0] == 'inc' else '-'} 1"]

    def program(self, funcs):
        out = []
        for (name, params, body) in funcs:
            out.append(f"def {name}({', '.join(params)}):")
            out += self.block(body, "    ")
            out.append("")
        return "\n".join(out) + "\n"


class Js(R):
    FOR_DECL = "let "

    def let(self, name, e, ind):
        return [f"{ind}let {name} = {self.e(e)};"]

    def for_(self, st, ind):
        v = st[1]
        return [f"{ind}for (let {v} = {self.e(st[2])}; {v} < {self.e(st[3])}; {v}++) {{"] + self.block(st[4], ind + "    ") + [f"{ind}}}"]

    def program(self, funcs):
        out = []
        for (name, params, body) in funcs:
            out.append(f"function {name}({', '.join(params)}) {{")
            out += self.block(body, "    ")
            out.append("}")
            out.append("")
        return "\n".join(out) + "\n"


class Ts(Js):
    def let(self, name, e, ind):
        return [f"{ind}let {name}: number = {self.e(e)};"]

    def for_(self, st, ind):
        v = st[1]
        return [f"{ind}for (let {v}: number = {self.e(st[2])}; {v} < {self.e(st[3])}; {v}++) {{"] + self.block(st[4], ind + "    ") + [f"{ind}}}"]

    def program(self, funcs):
        out = []
        for (name, params, body) in funcs:
            ps = ", ".join(f"{p}: {'boolean' if is_bool(p) else 'number'}" for p in params)
            out.append(f"function {name}({ps}): number {{")
            out += self.block(body, "    ")
            out.append("}")
            out.append("")
        return "\n".join(out) + "\n"


class Java(R):
    def program(self, funcs):
        out = ["class M {"]
        for (name, params, body) in funcs:
            ps = ", ".join(f"{'boolean' if is_bool(p) else 'int'} {p}" for p in params)
            out.append(f"    static int {name}({ps}) {{")
            out += self.block(body, "        ")
            out.append("    }")
            out.append("")
        out.append("}")
        return "\n".join(out) + "\n"


class C(R):
    TRUE, FALSE = "1", "0"
    FOREVER = "while (1)"

    def program(self, funcs):
        out = []
        for (name, params, body) in funcs:
            ps = ", ".join(f"int {p}" for p in params)
            out.append(f"int {name}({ps}) {{")
            out += self.block(body, "    ")
            out.append("}")
            out.append("")
        return "\n".join(out) + "\n"


class Go(R):
    def let(self, name, e, ind):
        return [f"{ind}{name} := {self.e(e)}"]

    def s(self, st, ind):
        k = st[0]
        if k == "set":
            return [f"{ind}{st[1]} = {self.e(st[2])}"]
        if k == "out":
            return [f"{ind}out({self.e(st[1])})"]
        if k == "expr":
            return [f"{ind}{self.e(st[1])}"]
        if k == "ret":
            return [f"{ind}return {self.e(st[1])}"]
        if k == "break":
            return [f"{ind}break"]
        if k == "continue":
            return [f"{ind}continue"]
        if k == "if":
            out = [f"{ind}if {self.e(st[1])} {{"] + self.block(st[2], ind + "    ")
            if st[3] is not None:
                out += [f"{ind}}} else {{"] + self.block(st[3], ind + "    ")
            return out + [f"{ind}}}"]
        if k == "while":
            return [f"{ind}for {self.e(st[1])} {{"] + self.block(st[2], ind + "    ") + [f"{ind}}}"]
        if k == "for":
            v = st[1]
            return [f"{ind}for {v} := {self.e(st[2])}; {v} < {self.e(st[3])}; {v}++ {{"] + self.block(st[4], ind + "    ") + [f"{ind}}}"]
        if k == "loop":
            return [f"{ind}for {{"] + self.block(st[1], ind + "    ") + [f"{ind}}}"]
        if k == "for_noupd":
            v = st[1]
            return [f"{ind}for {v} := {self.e(st[2])}; {v} < {self.e(st[3])}; {{"] + self.block(st[4], ind + "    ") + [f"{ind}}}"]
        return R.s(self, st, ind)

    def ifchain(self, st, ind):
        out = []
        for n, (c, body) in enumerate(st[1]):
            out += [f"{ind}if {self.e(c)} {{" if n == 0 else f"{ind}}} else if {self.e(c)} {{"] + self.block(body, ind + "    ")
        if st[2] is not None:
            out += [f"{ind}}} else {{"] + self.block(st[2], ind + "    ")
        return out + [f"{ind}}}"]

    def aug(self, st, ind):
        return [f"{ind}{st[1]} {st[2]}= {self.e(st[3])}"]

    def incdec(self, st, ind):
        return [f"{ind}{st[1]}{'++' if st[0] == 'inc' else '--'}"]

    def program(self, funcs):
        out = ["package m", ""]
        for (name, params, body) in funcs:
            ps = ", ".join(f"{p} {'bool' if is_bool(p) else 'int'}" for p in params)
            out.append(f"func {name}({ps}) int {{")
            out += self.block(body, "    ")
            out.append("}")
            out.append("")
        return "\n".join(out) + "\n"


class Php(R):
    FOR_DECL = ""

    def var(self, n):
        return "$" + n

    def let(self, name, e, ind):
        return [f"{ind}${name} = {self.e(e)};"]

    def for_(self, st, ind):
        v = "$" + st[1]
        return [f"{ind}for ({v} = {self.e(st[2])}; {v} < {self.e(st[3])}; {v}++) {{"] + self.block(st[4], ind + "    ") + [f"{ind}}}"]

    def program(self, funcs):
        out = ["<?php"]
        for (name, params, body) in funcs:
            out.append(f"function {name}({', '.join('$' + p for p in params)}) {{")
            out += self.block(body, "    ")
            out.append("}")
            out.append("")
        return "\n".join(out) + "\n"


RENDERERS = {"python": Py(), "javascript": Js(), "typescript": Ts(), "java": Java(), "go": Go(), "c": C(), "php": Php()}

V = lambda n: ("v", n)  # noqa: E731
I = lambda n: ("i", n)  # noqa: E731


def B(op, l, r):
    return ("bin", op, l, r)


def core_programs():
    """(name, construct, funcs, bounds)"""
    a, b, c = V("a"), V("b"), V("c")
    P = []

    def add(name, construct, body, extra=(), bounds=None):
        P.append((name, construct, list(extra) + [("f", ["a", "b", "c"], body)], bounds or {}))
    for op in ["+", "-", "*", "<", "<=", ">", ">=", "==", "!="]:
        nm = {"+": "add", "-": "sub", "*": "mul", "<": "lt", "<=": "le", ">": "gt", ">=": "ge", "==": "eq", "!=": "ne"}[op]
        if op in ("+", "-", "*"):
            add(f"bin_{nm}", "binary " + op, [("let", "x", B(op, a, b)), ("out", V("x")), ("ret", B(op, V("x"), I(2)))])
        else:
            add(f"cmp_{nm}", "comparison " + op, [("let", "x", I(0)), ("if", B(op, a, b), [("set", "x", I(1))], None), ("ret", V("x"))])
    add("neg", "unary minus", [("let", "x", ("neg", B("-", a, b))), ("ret", V("x"))])
    add("not_cond", "logical not", [("let", "x", I(0)), ("if", ("not", c), [("set", "x", I(1))], None), ("ret", V("x"))])
    add("and_cond", "logical and", [("let", "x", I(0)), ("if", B("and", B("<", a, b), c), [("set", "x", I(1))], None), ("ret", V("x"))])
    add("or_cond", "logical or", [("let", "x", I(0)), ("if", B("or", B("<", a, b), c), [("set", "x", I(1))], None), ("ret", V("x"))])
    add("nested_expr", "nested arithmetic", [("let", "x", B("*", B("-", a, b), B("-", b, I(2)))), ("ret", B("-", V("x"), a))])
    add("if_else", "if/else", [("let", "x", B("-", a, b)), ("if", c, [("set", "x", B("*", V("x"), I(2)))], [("set", "x", B("+", V("x"), I(1)))]),
                               ("out", V("x")), ("ret", V("x"))])
    add("if_no_else", "if", [("let", "x", a), ("if", B("<", a, b), [("set", "x", b), ("out", V("x"))], None), ("ret", V("x"))])
    add("if_nested", "nested if", [("let", "x", I(0)), ("if", c, [("if", B("<", a, b), [("set", "x", I(1))], [("set", "x", I(2))])], [("set", "x", I(3))]),
                                   ("ret", V("x"))])
    add("early_return", "return in branch", [("if", c, [("ret", a)], None), ("out", b), ("ret", b)])
    lb = {"a": (0, 3), "b": (0, 2)}
    add("while_count", "while", [("let", "i", I(0)), ("let", "s", I(0)), ("while", B("<", V("i"), a), [("set", "s", B("+", V("s"), V("i"))), ("set", "i", B("+", V("i"), I(1)))]),
                                 ("ret", V("s"))], bounds=lb)
    add("while_break", "break in while", [("let", "i", I(0)), ("while", B("<", V("i"), a), [("set", "i", B("+", V("i"), I(1))), ("if", B("==", V("i"), b), [("break",)], None)]),
                                          ("ret", V("i"))], bounds=lb)
    add("while_continue", "continue in while", [("let", "i", I(0)), ("let", "s", I(0)),
                                                ("while", B("<", V("i"), a), [("set", "i", B("+", V("i"), I(1))), ("if", c, [("continue",)], None), ("set", "s", B("+", V("s"), I(1)))]),
                                                ("ret", B("+", B("*", V("s"), I(10)), V("i")))], bounds=lb)
    add("for_count", "counted for", [("let", "s", I(0)), ("for", "i", I(0), a, [("set", "s", B("+", B("*", V("s"), I(2)), V("i")))]), ("ret", V("s"))], bounds=lb)
    add("for_break", "break in for", [("let", "s", I(0)), ("for", "i", I(0), a, [("if", B("==", V("i"), b), [("break",)], None), ("set", "s", B("+", V("s"), I(1)))]), ("ret", V("s"))],
        bounds=lb)
    add("for_continue", "continue in for", [("let", "s", I(0)), ("for", "i", I(0), a, [("if", B("==", V("i"), b), [("continue",)], None), ("set", "s", B("+", V("s"), I(1)))]),
                                            ("ret", V("s"))], bounds=lb)
    add("for_continue_then_break", "for body with a continue that ends in break", [("let", "s", I(0)), ("for", "i", I(0), a, [("if", B("==", V("i"), b), [("continue",)], None), ("set", "s", B("+", V("s"), B("+", V("i"), I(1)))), ("break",)]), ("ret", V("s"))], bounds=lb)
    add("for_break_and_continue", "break and continue in one for", [("let", "s", I(0)), ("for", "i", I(0), a, [("if", B("==", V("i"), b), [("break",)], None), ("if", c, [("continue",)], None), ("set", "s", B("+", V("s"), I(1)))]), ("ret", V("s"))], bounds=lb)
    add("for_continue_and_break_arms", "continue and break in the two arms of one if", [("let", "s", I(0)), ("for", "i", I(0), a, [("set", "s", B("+", V("s"), I(1))), ("if", B("==", V("i"), b), [("continue",)], [("break",)])]), ("ret", V("s"))], bounds=lb)
    add("for_nested_inner_last_break", "inner for ends the outer body and breaks", [("let", "s", I(0)), ("for", "i", I(0), a, [("set", "s", B("+", V("s"), I(1))), ("for", "j", I(0), b, [("if", B("==", V("j"), I(1)), [("break",)], None), ("set", "s", B("+", V("s"), I(10)))])]), ("ret", V("s"))], bounds=lb)
    add("for_without_update", "for with initialiser and condition but no update", [("let", "s", I(0)), ("for_noupd", "i", b, a, [("set", "s", B("+", B("*", V("s"), I(2)), V("i"))), ("inc", "i")]), ("out", V("s")), ("ret", V("s"))], bounds=lb)
    add("for_nested", "nested for", [("let", "s", I(0)), ("for", "i", I(0), a, [("for", "j", I(0), b, [("set", "s", B("+", V("s"), B("*", V("i"), V("j"))))])]), ("ret", V("s"))],
        bounds=lb)
    g = ("g", ["p", "q"], [("out", V("p")), ("ret", B("-", V("p"), V("q")))])
    add("call_two_args", "call", [("ret", ("call", "g", [a, b]))], extra=[g])
    add("call_swapped", "call argument order", [("ret", ("call", "g", [b, a]))], extra=[g])
    add("call_in_expr", "call in expression", [("let", "x", B("-", B("*", ("call", "g", [a, I(1)]), I(2)), ("call", "g", [b, a]))), ("ret", V("x"))], extra=[g])
    add("call_in_branch", "call in branch", [("let", "x", I(0)), ("if", c, [("set", "x", ("call", "g", [a, b]))], [("set", "x", ("call", "g", [b, I(2)]))]), ("ret", V("x"))],
        extra=[g])
    add("call_stmt", "call statement", [("expr", ("call", "g", [a, b])), ("ret", a)], extra=[g])
    rec = ("r", ["n", "q"], [("if", B("<=", V("n"), I(0)), [("ret", I(0))], None), ("ret", B("+", V("n"), ("call", "r", [B("-", V("n"), I(1)), V("q")])))])
    add("recursion", "recursion", [("ret", ("call", "r", [a, b]))], extra=[rec], bounds={"a": (0, 3)})
    # ---- generated expression / statement forms (round 2) ---------------------------------------------------------------
    names = {"<": "lt", "<=": "le", ">": "gt", ">=": "ge", "==": "eq", "!=": "ne", "+": "add", "-": "sub", "*": "mul"}

    def bump(cond, k):
        return ("if", cond, [("set", "x", B("+", V("x"), I(k)))], None)
    for op in ["<", "<=", ">", ">=", "==", "!="]:
        add(f"cmp_lit_{names[op]}", f"comparison {op} with a literal on either side",
            [("let", "x", I(0)), bump(B(op, I(3), a), 1), bump(B(op, a, I(3)), 2), bump(B(op, I(0), b), 4), ("ret", V("x"))])
    for op in ["+", "-", "*"]:
        add(f"bin_lit_{names[op]}", f"binary {op} with a literal on either side",
            [("let", "x", B(op, I(5), a)), ("let", "y", B(op, b, I(5))), ("out", V("x")), ("ret", B("-", V("x"), V("y")))])
    add("not_not", "double logical not", [("let", "x", I(0)), bump(("not", ("not", c)), 1), bump(("not", ("not", ("not", c))), 2), ("ret", V("x"))])
    add("neg_neg", "double unary minus", [("let", "x", ("neg", ("neg", a))), ("let", "y", ("neg", ("neg", ("neg", b)))), ("out", V("x")), ("ret", B("-", V("x"), V("y")))])
    add("not_cmp", "not of a comparison", [("let", "x", I(0)), bump(("not", B("<", a, b)), 1), bump(("not", B("==", a, b)), 2), ("ret", V("x"))])
    add("neg_in_expr", "unary minus inside arithmetic", [("let", "x", B("-", a, ("neg", b))), ("let", "y", B("*", ("neg", a), b)), ("out", V("x")), ("ret", B("+", V("x"), V("y")))])
    add("not_and_not", "negated operands of and/or", [("let", "x", I(0)), bump(B("and", ("not", c), B("<", a, b)), 1), bump(B("or", ("not", c), ("not", B("<", a, b))), 2), ("ret", V("x"))])
    add("assoc_sub", "unparenthesised a - b - 2 and a - (b - 2)", [("let", "x", ("binraw", "-", ("binraw", "-", a, b), I(2))), ("let", "y", ("binraw", "-", a, B("-", b, I(2)))), ("out", V("x")), ("ret", V("y"))])
    add("prec_mul_add", "unparenthesised a + b * 2 and a * b + 2", [("let", "x", ("binraw", "+", a, ("binraw", "*", b, I(2)))), ("let", "y", ("binraw", "+", ("binraw", "*", a, b), I(2))), ("out", V("x")), ("ret", V("y"))])
    add("prec_cmp_and", "unparenthesised a < b && b < 3 || c", [("let", "x", I(0)), bump(("binraw", "or", ("binraw", "and", ("binraw", "<", a, b), ("binraw", "<", b, I(3))), c), 1), ("ret", V("x"))])
    for op in ["+", "-", "*"]:
        add(f"aug_{names[op]}", f"compound assignment {op}=", [("let", "x", a), ("aug", "x", op, b), ("out", V("x")), ("aug", "x", op, B("-", V("x"), I(2))), ("ret", V("x"))])
    add("inc_dec", "x++ / x-- statements", [("let", "x", a), ("let", "y", b), ("inc", "x"), ("dec", "y"), ("inc", "x"), ("out", V("x")), ("ret", B("-", V("x"), V("y")))])
    add("else_if_chain", "else-if chain", [("let", "x", I(0)), ("ifchain", [(B("<", a, I(0)), [("set", "x", I(1))]), (B("<", a, b), [("set", "x", I(2))]), (c, [("set", "x", I(3))])], [("set", "x", I(4))]),
                                           ("out", V("x")), ("ret", V("x"))])
    add("else_if_no_else", "else-if chain without else", [("let", "x", I(0)), ("ifchain", [(B("<", a, I(0)), [("set", "x", I(1))]), (B("<", a, b), [("set", "x", I(2))])], None), ("ret", V("x"))])
    add("if_not_else", "if (!c) with else", [("let", "x", I(0)), ("if", ("not", c), [("set", "x", a)], [("set", "x", b)]), ("ret", V("x"))])
    add("ternary", "conditional expression", [("let", "x", ("tern", c, a, b)), ("let", "y", ("tern", B("<", a, b), B("-", a, I(1)), ("tern", c, I(7), b))), ("out", V("x")), ("ret", V("y"))],
        bounds={"skip_langs": ["go"]})
    add("while_and_cond", "while with a compound condition", [("let", "i", I(0)), ("while", B("and", B("<", V("i"), a), B("!=", V("i"), b)), [("inc", "i")]), ("ret", V("i"))], bounds=lb)
    add("while_not_cond", "while with a negated condition", [("let", "i", I(0)), ("while", ("not", B(">=", V("i"), a)), [("aug", "i", "+", I(1))]), ("ret", V("i"))], bounds=lb)
    add("for_aug_body", "counted for with compound assignment", [("let", "s", I(1)), ("for", "i", I(0), a, [("aug", "s", "*", I(2)), ("aug", "s", "-", V("i"))]), ("ret", V("s"))], bounds=lb)
    add("for_lo_hi", "counted for from a to a + b", [("let", "s", I(0)), ("for", "i", b, B("+", a, b), [("aug", "s", "+", V("i"))]), ("ret", V("s"))], bounds=lb)
    add("empty_then", "if with an empty block, code after it", [("let", "x", a), ("if", c, [], None), ("set", "x", B("+", V("x"), I(1))), ("out", V("x")), ("ret", V("x"))])
    add("empty_else", "if/else with an empty else block", [("let", "x", a), ("if", c, [("set", "x", b)], []), ("set", "x", B("+", V("x"), I(1))), ("out", V("x")), ("ret", V("x"))])
    add("empty_then_in_loop", "empty if block inside a loop", [("let", "s", I(0)), ("for", "i", I(0), a, [("if", B("==", V("i"), b), [], None), ("aug", "s", "+", I(1))]), ("ret", V("s"))], bounds=lb)
    add("loop_forever_break", "unconditional loop left by break", [("let", "i", I(0)), ("loop", [("inc", "i"), ("out", V("i")), ("if", B(">=", V("i"), a), [("break",)], None)]), ("ret", V("i"))], bounds=lb)
    add("loop_forever_return", "unconditional loop left by return", [("let", "i", b), ("loop", [("if", B(">=", V("i"), a), [("ret", V("i"))], None), ("inc", "i")])], bounds=lb)
    add("return_expr_call", "return of a compound expression", [("ret", B("-", B("*", a, I(3)), ("call", "g", [b, ("neg", a)])))], extra=[g])
    add("call_nested", "call as argument of a call", [("ret", ("call", "g", [("call", "g", [a, b]), ("call", "g", [b, I(1)])]))], extra=[g])
    return P


def render_all():
    """[(name, construct, lang, source, python_source, bounds)]"""
    out = []
    for (name, construct, funcs, bounds) in core_programs():
        py = RENDERERS["python"].program(funcs)
        bounds = dict(bounds)
        skip = bounds.pop("skip_langs", [])
        for lang, r in RENDERERS.items():
            if lang in skip:
                continue
            out.append((name, construct, lang, r.program(funcs), py, bounds))
    return out
