"""Core language of C02 and its renderers to the seven frontends (Python is the reference rendering)."""

# expressions: ('v', name) ('i', n) ('b', bool) ('bin', op, l, r) ('not', e) ('neg', e) ('call', fname, [args])
# statements : ('let', name, e) ('set', name, e) ('out', e) ('if', c, then, else|None) ('while', c, body)
#              ('for', var, lo, hi, body) ('break',) ('continue',) ('ret', e) ('expr', e)
# function   : (name, [param names], body); params named c* are booleans, everything else int

LANGS = {
    "python": ".py", "javascript": ".js", "typescript": ".ts", "java": ".java", "go": ".go", "c": ".c", "php": ".php",
}


def is_bool(name):
    return name.startswith("c")


class R:
    """base renderer (C-like syntax)"""
    AND, OR, NOT = "&&", "||", "!"
    TRUE, FALSE = "true", "false"

    def var(self, n):
        return n

    def e(self, x):
        k = x[0]
        if k == "v":
            return self.var(x[1])
        if k == "i":
            return str(x[1])
        if k == "b":
            return self.TRUE if x[1] else self.FALSE
        if k == "bin":
            op = {"and": self.AND, "or": self.OR}.get(x[1], x[1])
            return f"({self.e(x[2])} {op} {self.e(x[3])})"
        if k == "not":
            return f"({self.NOT}{self.e(x[1])})" if self.NOT != "not" else f"(not {self.e(x[1])})"
        if k == "neg":
            return f"(-{self.e(x[1])})"
        if k == "call":
            return f"{self.fname(x[1])}({', '.join(self.e(a) for a in x[2])})"
        raise ValueError(k)

    def fname(self, n):
        return n

    def block(self, stmts, ind):
        out = []
        for s in stmts:
            out += self.s(s, ind)
        return out

    def let(self, name, e, ind):
        return [f"{ind}int {name} = {self.e(e)};"]

    def s(self, st, ind):
        k = st[0]
        if k == "let":
            return self.let(st[1], st[2], ind)
        if k == "set":
            return [f"{ind}{self.var(st[1])} = {self.e(st[2])};"]
        if k == "out":
            return [f"{ind}out({self.e(st[1])});"]
        if k == "expr":
            return [f"{ind}{self.e(st[1])};"]
        if k == "ret":
            return [f"{ind}return {self.e(st[1])};"]
        if k == "break":
            return [f"{ind}break;"]
        if k == "continue":
            return [f"{ind}continue;"]
        if k == "if":
            out = [f"{ind}if ({self.e(st[1])}) {{"] + self.block(st[2], ind + "    ")
            if st[3] is not None:
                out += [f"{ind}}} else {{"] + self.block(st[3], ind + "    ")
            return out + [f"{ind}}}"]
        if k == "while":
            return [f"{ind}while ({self.e(st[1])}) {{"] + self.block(st[2], ind + "    ") + [f"{ind}}}"]
        if k == "for":
            return self.for_(st, ind)
        raise ValueError(k)

    def for_(self, st, ind):
        v = self.var(st[1])
        return [f"{ind}for (int {v} = {self.e(st[2])}; {v} < {self.e(st[3])}; {v}++) {{"] + self.block(st[4], ind + "    ") + [f"{ind}}}"]


class Py(R):
    AND, OR, NOT = "and", "or", "not"
    TRUE, FALSE = "True", "False"

    def let(self, name, e, ind):
        return [f"{ind}{name} = {self.e(e)}"]

    def s(self, st, ind):
        k = st[0]
        if k == "set":
            return [f"{ind}{st[1]} = {self.e(st[2])}"]
        if k == "out":
            return [f"{ind}out({self.e(st[1])})"]
        if k == "expr":
            return [f"{ind}{self.e(st[1])}"]
        if k == "ret":
            return [f"{ind}return {self.e(st[1])}"]
        if k == "break":
            return [f"{ind}break"]
        if k == "continue":
            return [f"{ind}continue"]
        if k == "if":
            out = [f"{ind}if {self.e(st[1])}:"] + self.block(st[2], ind + "    ")
            if st[3] is not None:
                out += [f"{ind}else:"] + self.block(st[3], ind + "    ")
            return out
        if k == "while":
            return [f"{ind}while {self.e(st[1])}:"] + self.block(st[2], ind + "    ")
        if k == "for":
            return [f"{ind}for {st[1]} in range({self.e(st[2])}, {self.e(st[3])}):"] + self.block(st[4], ind + "    ")
        return R.s(self, st, ind)

    def program(self, funcs):
        out = []
        for (name, params, body) in funcs:
            out.append(f"def {name}({', '.join(params)}):")
            out += self.block(body, "    ")
            out.append("")
        return "\n".join(out) + "\n"


class Js(R):
    def let(self, name, e, ind):
        return [f"{ind}let {name} = {self.e(e)};"]

    def for_(self, st, ind):
        v = st[1]
        return [f"{ind}for (let {v} = {self.e(st[2])}; {v} < {self.e(st[3])}; {v}++) {{"] + self.block(st[4], ind + "    ") + [f"{ind}}}"]

    def program(self, funcs):
        out = []
        for (name, params, body) in funcs:
            out.append(f"function {name}({', '.join(params)}) {{")
            out += self.block(body, "    ")
            out.append("}")
            out.append("")
        return "\n".join(out) + "\n"


class Ts(Js):
    def let(self, name, e, ind):
        return [f"{ind}let {name}: number = {self.e(e)};"]

    def for_(self, st, ind):
        v = st[1]
        return [f"{ind}for (let {v}: number = {self.e(st[2])}; {v} < {self.e(st[3])}; {v}++) {{"] + self.block(st[4], ind + "    ") + [f"{ind}}}"]

    def program(self, funcs):
        out = []
        for (name, params, body) in funcs:
            ps = ", ".join(f"{p}: {'boolean' if is_bool(p) else 'number'}" for p in params)
            out.append(f"function {name}({ps}): number {{")
            out += self.block(body, "    ")
            out.append("}")
            out.append("")
        return "\n".join(out) + "\n"


class Java(R):
    def program(self, funcs):
        out = ["class M {"]
        for (name, params, body) in funcs:
            ps = ", ".join(f"{'boolean' if is_bool(p) else 'int'} {p}" for p in params)
            out.append(f"    static int {name}({ps}) {{")
            out += self.block(body, "        ")
            out.append("    }")
            out.append("")
        out.append("}")
        return "\n".join(out) + "\n"


class C(R):
    TRUE, FALSE = "1", "0"

    def program(self, funcs):
        out = []
        for (name, params, body) in funcs:
            ps = ", ".join(f"int {p}" for p in params)
            out.append(f"int {name}({ps}) {{")
            out += self.block(body, "    ")
            out.append("}")
            out.append("")
        return "\n".join(out) + "\n"


class Go(R):
    def let(self, name, e, ind):
        return [f"{ind}{name} := {self.e(e)}"]

    def s(self, st, ind):
        k = st[0]
        if k == "set":
            return [f"{ind}{st[1]} = {self.e(st[2])}"]
        if k == "out":
            return [f"{ind}out({self.e(st[1])})"]
        if k == "expr":
            return [f"{ind}{self.e(st[1])}"]
        if k == "ret":
            return [f"{ind}return {self.e(st[1])}"]
        if k == "break":
            return [f"{ind}break"]
        if k == "continue":
            return [f"{ind}continue"]
        if k == "if":
            out = [f"{ind}if {self.e(st[1])} {{"] + self.block(st[2], ind + "    ")
            if st[3] is not None:
                out += [f"{ind}}} else {{"] + self.block(st[3], ind + "    ")
            return out + [f"{ind}}}"]
        if k == "while":
            return [f"{ind}for {self.e(st[1])} {{"] + self.block(st[2], ind + "    ") + [f"{ind}}}"]
        if k == "for":
            v = st[1]
            return [f"{ind}for {v} := {self.e(st[2])}; {v} < {self.e(st[3])}; {v}++ {{"] + self.block(st[4], ind + "    ") + [f"{ind}}}"]
        return R.s(self, st, ind)

    def program(self, funcs):
        out = ["package m", ""]
        for (name, params, body) in funcs:
            ps = ", ".join(f"{p} {'bool' if is_bool(p) else 'int'}" for p in params)
            out.append(f"func {name}({ps}) int {{")
            out += self.block(body, "    ")
            out.append("}")
            out.append("")
        return "\n".join(out) + "\n"


class Php(R):
    def var(self, n):
        return "$" + n

    def let(self, name, e, ind):
        return [f"{ind}${name} = {self.e(e)};"]

    def for_(self, st, ind):
        v = "$" + st[1]
        return [f"{ind}for ({v} = {self.e(st[2])}; {v} < {self.e(st[3])}; {v}++) {{"] + self.block(st[4], ind + "    ") + [f"{ind}}}"]

    def program(self, funcs):
        out = ["<?php"]
        for (name, params, body) in funcs:
            out.append(f"function {name}({', '.join('$' + p for p in params)}) {{")
            out += self.block(body, "    ")
            out.append("}")
            out.append("")
        return "\n".join(out) + "\n"


RENDERERS = {"python": Py(), "javascript": Js(), "typescript": Ts(), "java": Java(), "go": Go(), "c": C(), "php": Php()}

V = lambda n: ("v", n)  # noqa: E731
I = lambda n: ("i", n)  # noqa: E731


def B(op, l, r):
    return ("bin", op, l, r)


def core_programs():
    """(name, construct, funcs, bounds)"""
    a, b, c = V("a"), V("b"), V("c")
    P = []

    def add(name, construct, body, extra=(), bounds=None):
        P.append((name, construct, list(extra) + [("f", ["a", "b", "c"], body)], bounds or {}))
    for op in ["+", "-", "*", "<", "<=", ">", ">=", "==", "!="]:
        nm = {"+": "add", "-": "sub", "*": "mul", "<": "lt", "<=": "le", ">": "gt", ">=": "ge", "==": "eq", "!=": "ne"}[op]
        if op in ("+", "-", "*"):
            add(f"bin_{nm}", "binary " + op, [("let", "x", B(op, a, b)), ("out", V("x")), ("ret", B(op, V("x"), I(2)))])
        else:
            add(f"cmp_{nm}", "comparison " + op, [("let", "x", I(0)), ("if", B(op, a, b), [("set", "x", I(1))], None), ("ret", V("x"))])
    add("neg", "unary minus", [("let", "x", ("neg", B("-", a, b))), ("ret", V("x"))])
    add("not_cond", "logical not", [("let", "x", I(0)), ("if", ("not", c), [("set", "x", I(1))], None), ("ret", V("x"))])
    add("and_cond", "logical and", [("let", "x", I(0)), ("if", B("and", B("<", a, b), c), [("set", "x", I(1))], None), ("ret", V("x"))])
    add("or_cond", "logical or", [("let", "x", I(0)), ("if", B("or", B("<", a, b), c), [("set", "x", I(1))], None), ("ret", V("x"))])
    add("nested_expr", "nested arithmetic", [("let", "x", B("*", B("-", a, b), B("-", b, I(2)))), ("ret", B("-", V("x"), a))])
    add("if_else", "if/else", [("let", "x", B("-", a, b)), ("if", c, [("set", "x", B("*", V("x"), I(2)))], [("set", "x", B("+", V("x"), I(1)))]),
                               ("out", V("x")), ("ret", V("x"))])
    add("if_no_else", "if", [("let", "x", a), ("if", B("<", a, b), [("set", "x", b), ("out", V("x"))], None), ("ret", V("x"))])
    add("if_nested", "nested if", [("let", "x", I(0)), ("if", c, [("if", B("<", a, b), [("set", "x", I(1))], [("set", "x", I(2))])], [("set", "x", I(3))]),
                                   ("ret", V("x"))])
    add("early_return", "return in branch", [("if", c, [("ret", a)], None), ("out", b), ("ret", b)])
    lb = {"a": (0, 3), "b": (0, 2)}
    add("while_count", "while", [("let", "i", I(0)), ("let", "s", I(0)), ("while", B("<", V("i"), a), [("set", "s", B("+", V("s"), V("i"))), ("set", "i", B("+", V("i"), I(1)))]),
                                 ("ret", V("s"))], bounds=lb)
    add("while_break", "break in while", [("let", "i", I(0)), ("while", B("<", V("i"), a), [("set", "i", B("+", V("i"), I(1))), ("if", B("==", V("i"), b), [("break",)], None)]),
                                          ("ret", V("i"))], bounds=lb)
    add("while_continue", "continue in while", [("let", "i", I(0)), ("let", "s", I(0)),
                                                ("while", B("<", V("i"), a), [("set", "i", B("+", V("i"), I(1))), ("if", c, [("continue",)], None), ("set", "s", B("+", V("s"), I(1)))]),
                                                ("ret", B("+", B("*", V("s"), I(10)), V("i")))], bounds=lb)
    add("for_count", "counted for", [("let", "s", I(0)), ("for", "i", I(0), a, [("set", "s", B("+", B("*", V("s"), I(2)), V("i")))]), ("ret", V("s"))], bounds=lb)
    add("for_break", "break in for", [("let", "s", I(0)), ("for", "i", I(0), a, [("if", B("==", V("i"), b), [("break",)], None), ("set", "s", B("+", V("s"), I(1)))]), ("ret", V("s"))],
        bounds=lb)
    add("for_continue", "continue in for", [("let", "s", I(0)), ("for", "i", I(0), a, [("if", B("==", V("i"), b), [("continue",)], None), ("set", "s", B("+", V("s"), I(1)))]),
                                            ("ret", V("s"))], bounds=lb)
    add("for_nested", "nested for", [("let", "s", I(0)), ("for", "i", I(0), a, [("for", "j", I(0), b, [("set", "s", B("+", V("s"), B("*", V("i"), V("j"))))])]), ("ret", V("s"))],
        bounds=lb)
    g = ("g", ["p", "q"], [("out", V("p")), ("ret", B("-", V("p"), V("q")))])
    add("call_two_args", "call", [("ret", ("call", "g", [a, b]))], extra=[g])
    add("call_swapped", "call argument order", [("ret", ("call", "g", [b, a]))], extra=[g])
    add("call_in_expr", "call in expression", [("let", "x", B("-", B("*", ("call", "g", [a, I(1)]), I(2)), ("call", "g", [b, a]))), ("ret", V("x"))], extra=[g])
    add("call_in_branch", "call in branch", [("let", "x", I(0)), ("if", c, [("set", "x", ("call", "g", [a, b]))], [("set", "x", ("call", "g", [b, I(2)]))]), ("ret", V("x"))],
        extra=[g])
    add("call_stmt", "call statement", [("expr", ("call", "g", [a, b])), ("ret", a)], extra=[g])
    rec = ("r", ["n", "q"], [("if", B("<=", V("n"), I(0)), [("ret", I(0))], None), ("ret", B("+", V("n"), ("call", "r", [B("-", V("n"), I(1)), V("q")])))])
    add("recursion", "recursion", [("ret", ("call", "r", [a, b]))], extra=[rec], bounds={"a": (0, 3)})
    return P


def render_all():
    """[(name, construct, lang, source, python_source, bounds)]"""
    out = []
    for (name, construct, funcs, bounds) in core_programs():
        py = RENDERERS["python"].program(funcs)
        for lang, r in RENDERERS.items():
            out.append((name, construct, lang, r.program(funcs), py, bounds))
    return out
