"""Regenerates /verif/MANIFEST.json from the table below:  .venv/bin/python -m vlib.manifest"""
import json
import os

from vlib import common

BASELINE = ("cd /repo && env -u LIAN_VERIF /venv/bin/python -m pytest -ra -q -p no:cacheprovider --timeout=900 "
            "--continue-on-collection-errors")

CHECKS = {
    "C19": dict(
        level="model_checking", engine="X",
        technique="CrossHair symbolic execution (z3) of the real PathManager/PathTrie over symbolic operation "
                  "histories, compared with a maximal-path reference model; decision tree exhausted per slice",
        text="Bounded model checking of the real PathManager/PathTrie/CallSite/CallPath code: every history of "
             "add/remove/exists operations inside the stated bounds (operations, path length, call-site alphabet) is "
             "covered by a CrossHair decision tree that is exhausted (CONFIRMED) per slice; counterexamples are "
             "replayed natively. Histories are the quantifier of the property, so a history-exhaustive bound is the "
             "right level; nothing is claimed beyond the bound.",
        note="Trusted: CrossHair path accounting, z3, the 30-line reference model written from the property text. "
             "Call-site ids are hashed by the trie, so the solver enumerates them (enumerative variable).",
        design="4/C19"),
}

CHECKS["C17"] = dict(
    level="model_checking", engine="S",
    technique="z3 decides the AST-derived encoding of EventManager.notify and event_return.* against the written "
              "specification for all return words / None-ness / data values (bit-vectors), per enumerated registration; "
              "cvc5 cross-check",
    text="The functions notify, sync_event_return and the flag predicates are read from /repo's AST and executed on z3 "
         "terms (8-bit flag words, optional returns, symbolic in/out data, ghost clock for order). For every enumerated "
         "registration of up to k handlers and language-set forms the query 'path condition and not specification' is "
         "unsat for all 256^k x 2^k return combinations; sat answers are replayed on the real EventManager. Bounded by k, "
         "the bit width and the language-form list, which is what the property's quantifier enumerates.",
    note="Trusted: z3 (cvc5 re-decides kernel queries), the AST interpreter (validated against the real "
         "sync_event_return on a concrete grid each run), the handler stub contract listed in evidence.assumptions.",
    design="4/C17")

CHECKS["C16"] = dict(
    level="model_checking", engine="X",
    technique="CrossHair symbolic execution (z3) of the real DataModel over a pure-Python pandas stand-in and of the real "
              "GIRBlockViewer, with symbolic written values / cells / shapes, compared with a list-of-dicts scan model; "
              "counterexamples replayed on real pandas",
    text="Bounded model checking over operation histories: for the listed initial tables every single mutation (thorough: "
         "two) with symbolic written values and every order of the query groups before/after it is executed on the real "
         "DataModel code and every query is compared with a scan of a list-of-dicts model; every pair of column renames on a "
         "3-column table (a column taking over a name another just gave up) with equality queries before/between/after; "
         "GIRBlockViewer is executed on every well-nested row sequence up to the bound (incl. block-marker queries through nested views). CONFIRMED means CrossHair exhausted the slice. Histories are "
         "the property's quantifier; the bound is stated in evidence.",
    note="Trusted: CrossHair/z3; the pandas stand-in (vlib/stubs/fakepandas.py, validated against real pandas on a corpus "
         "every run; every counterexample must reproduce on real pandas); the scan model.",
    design="4/C16")

CHECKS["C15"] = dict(
    level="model_checking", engine="X",
    technique="CrossHair symbolic execution (z3) of the real LRUCache and GeneralLoader state machine (UnitLevelLoader, "
              "ScopeIDToAvailableScopeIDsLoader, ClassIDToMembersLoader over the real DataModel and a pandas/feather stand-in) over symbolic "
              "save/get/export/restore histories with symbolic payloads; counterexamples replayed with real pandas and files",
    text="Bounded model checking over histories: every history of save/get/export/checkpoint (export, export_indexing, "
         "restore into a fresh loader) and, in dedicated slices, remove_unit_id, up to the stated length, for the listed cache capacities and MAX_ROWS values that "
         "force multi-bundle output, with symbolic item payloads, must return the most recently saved content; LRUCache "
         "is compared with an ordered model including eviction order. One concrete fault scenario (unwritable bundle) is "
         "replayed on the real code. CONFIRMED = slice exhausted.",
    note="Trusted: CrossHair/z3, the pandas/feather stand-in (validated under C16; counterexamples must reproduce with "
         "real pandas and real files), the dictionary reference model. One open known finding (silent failed write).",
    design="4/C15")

CHECKS["C03"] = dict(
    level="model_checking", engine="X+S",
    technique="CrossHair symbolic execution (z3) of the real GIRProcessing.flatten + add_main_func on every nested-GIR shape "
              "in a bounded token grammar with a symbolic, unbounded start id; z3 (cvc5 cross-check) on the AST-derived "
              "encoding of adjust_node_id for the inter-unit id gap; corpus leg: the real `main.py lang` on the repository's "
              "six per-language corpora and on the generated seven-frontend project, tables scanned independently (concrete)",
    text="Half (a) of the property (any nested GIR value -> well-formed rows): for every shape up to the token bound and every "
         "start id (symbolic int) the rows emitted by the real flattener and the real unit-initialiser pass are scanned "
         "independently for unique ids, paired and nested markers, parent = enclosing block, body attributes naming owned "
         "blocks, top-level executable code gathered in order in exactly one %unit_init, no statement lost; the real "
         "GIRBlockViewer must accept the rows; the inter-unit id gap is decided for all ints from the AST. Corpus leg "
         "(concrete, labelled so): what the real frontends emit for tests/lang_parser/{python,javascript,java,go,c,php} (137 "
         "files as six multi-file projects) and for 503 generated files in seven languages satisfies the same clauses "
         "project-wide (ids unique, file ranges disjoint, blocks owned and named by enclosing statements, executable statements "
         "inside methods or class initialisers) and the phase exits with 0. Byte-level mutations of source text are not claimed.",
    note="Trusted: CrossHair/z3/cvc5, the shape decoder and the 80-line scan; frontends are assumed to emit values inside the "
         "shape grammar (non-empty bodies, single-key statement dicts).",
    design="4/C03")

CHECKS["C18"] = dict(
    level="model_checking", engine="X",
    technique="CrossHair symbolic execution (z3) of the real Lian.set_workspace_dir + WorkspaceBuilder.run over an in-memory "
              "filesystem, configuration (workspace option, inputs, tree flags, --force, --incremental) as solver variables; counterexamples "
              "replayed on the real filesystem in a scratch directory",
    text="Bounded model checking over configurations: for every workspace option of 1-2 components (relative/absolute, "
         "default name, custom name containing the default name, '..', '.', a link into an input), 1-2 inputs (directory, file, "
         "nested, the workspace itself, parents), presence of a nested directory / symlink / stale workspace (old files and "
         "out-pointing links, or its own src/bak being out-pointing links), with and without --force and --incremental, the real preparation code runs against a logging filesystem model; every create/write/delete must lie "
         "under realpath(workspace), deletes need --force, nothing outside changes, and the number of effects is bounded by "
         "the inputs. CONFIRMED = all configurations of the slice exhausted.",
    note="Trusted: CrossHair/z3 (configurations decode to concrete paths: enumerative variables), the filesystem model "
         "(vlib/stubs/fakefs.py; counterexamples must reproduce on the real filesystem).",
    design="4/C18")

CHECKS["C20"] = dict(
    level="model_checking", engine="X",
    technique="CrossHair symbolic execution (z3) of the real EntryPointGenerator.filter_rule_by_unit_info/check_rules with "
              "lazily decoded symbolic rule fields, and of util.check_file_processing_flag_and_extract_lang on symbolic "
              "file-name strings, against the declarative reading of the rules; program leg: the real `main.py run` on a "
              "two-language project under 15 entry rule sets, compared with the same declarative reading",
    text="Kernel-level bounded model checking: for every rule (two rules for the first-match logic) whose fields range "
         "over option tables including 'absent', every listed unit and method description, the set selected by the real "
         "filter code equals 'some rule matches the unit and the method'; the settings file-name filter is decided for "
         "every symbolic prefix up to the bound. CONFIRMED = slice exhausted. Program leg (concrete comparison, labelled so): for 15 rule "
         "sets (empty, initialiser only, by name, uncalled methods, language, unit name/path substrings, rule without method "
         "list, overlapping rules, rules spread over several settings files) the semantic_p1/entry_points table equals the "
         "configured set and the taint report contains exactly the flows of methods reachable from it.",
    note="Trusted: CrossHair/z3, the 25-line declarative reference (reading of args/return_type fixed in evidence), "
         "duck-typed unit scope rows.",
    design="4/C20")

CHECKS["C10"] = dict(
    level="model_checking", engine="X",
    technique="CrossHair symbolic execution (z3) of the real PathFinder.propagate_taint on every small typed state-flow graph "
              "built through the real StateFlowGraph/SFGNode/SFGEdge, compared with the least fixpoint of the documented edge rules; "
              "program leg: real `main.py run` on generated programs, CrossHair (z3) executes the reference interpreter with "
              "identity-tracked source values for all unknown inputs and compares arrivals at sinks with the reported flows",
    text="Kernel-level bounded model checking of taint completeness: for every state-flow graph within the node bound (edge "
         "presence/kind/position, statement kind and source chosen by the solver) the real propagation taints at least "
         "every symbol and state in the least fixpoint of the rules of docs 6-2. CONFIRMED = slice exhausted. The question "
         "whether the semantic phases build a graph that contains the program's flows is decided by the program leg: 13 flowing "
         "programs (copies, operators, branches, parameters, returns, fields, constructor, list elements), under the plain rule "
         "set and under rules restricted per unit and line; for all inputs every source value arriving at argument 0 of a sink "
         "must be a reported flow with exactly those two statements.",
    note="Trusted: CrossHair/z3 (graph shape is an enumerative variable), the 50-line reference fixpoint, disjoint symbol/state ids.",
    design="4/C10")
CHECKS["C11"] = dict(
    level="model_checking", engine="X",
    technique="CrossHair symbolic execution (z3) of the real propagate_taint (no taint outside the least fixpoint) and of the real "
              "TaintRuleApplier.get_sink_tag_by_rules over operand positions x rule targets x rule restrictions; program leg: real "
              "`main.py run` under 14 rule sets, each reported flow decided by z3 as Horn entailment over a dependence system "
              "generated from lian's GIR rows (unsat of clauses /\\ source /\\ not sink-argument = justified)",
    text="Kernel-level bounded model checking of flow justification: on every state-flow graph within the node bound the real "
         "propagation taints nothing outside the least fixpoint of the documented rules; for a call sink with operands at "
         "positions 0..2 (absent/clean/tainted) and every 1-2 element target list over the known keywords, the wildcard, the "
         "empty and unknown targets, the sink tag equals the union over the designated positions and the call never raises; "
         "a rule of another operation contributes nothing, a rule restricted to another unit or line designates nothing (alone "
         "or beside an unrestricted rule). Program leg: 33 programs x 14 rule sets (empty, other names, other language, "
         "restricted by unit / line, other argument position, extended): every reported flow starts at a statement matching a "
         "source rule in scope, ends at one matching a sink rule in scope, the designated argument depends on the source value "
         "under the coarsest accepted reading (flow-, context-insensitive, object-granular, opaque calls), and extending the "
         "rules loses no flow. A CrossHair leg confirms for all inputs that the dependence reading over-approximates what "
         "dynamically arrives at sinks. CONFIRMED = slice exhausted.",
    note="Trusted: CrossHair/z3, the reference fixpoint and the position table (written from TAG_KEYWORD's documentation in "
         "rule_manager.Rule).",
    design="4/C11")

CHECKS["C13"] = dict(
    level="model_checking", engine="X+S",
    technique="CrossHair symbolic execution (z3) of the real taint worklist and the real statement scheduler with fuel counters "
              "on every small graph; z3/cvc5 on the AST-derived call-descent guard and on a cost model of constant folding",
    text="Only the mechanisms meant to make the analysis terminate are claimed, each as a bounded obligation on the real "
         "function: propagate_taint stays within a linear number of worklist pops on every state-flow graph in the bound "
         "(cycles included); analyze_stmts + SimpleWorkList end within the fuel on every single-entry CFG of 4 statements and "
         "analyse no statement more than max_round times; the descent guard (boolean structure and constants read from the "
         "AST) bounds descents per call site; the folding-cost query exhibits the known exponential case. A program leg "
         "(measurement, labelled so) runs the real pipeline on 13 hostile shapes (recursion of several kinds, object rings, tainted "
         "method calls, loop-carried taint, cyclic imports, call chains with two call sites per function): each run ends with exit "
         "code 0 within a generous bound and the chains need at most 40 n method analyses (a deterministic count).",
    note="Trusted: CrossHair/z3/cvc5, the fuel formulas, the operator cost model (lower bounds on bit length). One open known "
         "finding (unbounded ** / << folding).",
    design="4/C13")

CHECKS["C01"] = dict(
    level="translation_validation", engine="T",
    technique="per generated program: the real lian frontend lowers it (main.py lang); CrossHair (z3) symbolically co-executes the "
              "Python source under CPython and lian's GIR rows under a reference interpreter with symbolic entry arguments and "
              "searches for arguments on which outputs or return value differ",
    text="Translation validation of the Python lowering: for every program of an exhaustively enumerated family (expression "
         "forms, call forms, classes, containers, and all control-flow skeletons up to the size bound) the solver decides "
         "equality of observable behaviour for ALL argument vectors (unbounded ints for loop-free programs, small ranges where "
         "arguments bound loops); CONFIRMED = every path of every program in the slice exhausted. The family is the bound; "
         "known lowering defects are confined to witness programs listed in known_findings.json. A project-size leg lowers one "
         "project of 1100 (thorough: 3000) files, requires GIR for every file and decides the first and last numbered units.",
    note="Trusted: CPython as the semantics of Python, the reference GIR interpreter (vlib/gir_interp.py), CrossHair/z3. "
         "lian's frontend code itself runs concretely (tree-sitter cannot be made symbolic).",
    design="4/C01")

CHECKS["C04"] = dict(
    level="model_checking", engine="T",
    technique="per generated program: real lian run (main.py semantic) produces GIR and CFG tables; CrossHair (z3) executes the "
              "reference GIR interpreter with symbolic entry arguments and checks that every statement trace is a path of "
              "lian's stored control-flow graph",
    text="Bounded model checking over branch-decision vectors: for every method of every program in the enumerated Python "
         "family and ALL entry arguments (every combination of branch outcomes; loop counters 0..3), the first executed "
         "statement is an entry node, every consecutively executed pair is an edge of semantic_p1/cfg, and the last statement "
         "before leaving has an edge to the exit; plus a concrete scan that no node belongs to another method. The same "
         "obligation is decided for the C02 core programs rendered in all seven frontends (for with init/condition/update, "
         "while, else-if chains, conditional expressions, C-style break/continue). CONFIRMED = all paths of all programs in "
         "the slice exhausted.",
    note="Trusted: the reference interpreter's trace convention (DESIGN section 10), CrossHair/z3. lian's CFG builder runs "
         "concretely.",
    design="4/C04")

CHECKS["C06"] = dict(
    level="model_checking", engine="T+X",
    technique="per generated program: real lian run (main.py semantic); CrossHair (z3) executes the reference GIR interpreter with "
              "symbolic entry arguments, tracks the last writer of every local and checks it against lian's stored reaching sets; "
              "concrete classical-RD scan over lian's CFG; CrossHair on the real analyze_stmts scheduler over acyclic CFGs",
    text="Soundness is decided by the solver per program for all entry arguments with each loop body run at most once: at every "
         "executed use the statement that last wrote the variable (element/field writes count as definitions of the container "
         "symbol, as lian models them) is in semantic_p3/stmt_status_p3's in-set of the using statement. Precision on loop-free "
         "methods is a concrete comparison with the classical solution over lian's own CFG. The scheduler kernel is model-checked "
         "on every acyclic 4-statement CFG. Loops are confined to witnesses while the scheduler finding is open.",
    note="Trusted: the reference interpreter and its definition convention, CrossHair/z3. Two open known findings (same root cause).",
    design="4/C06")

CHECKS["C07"] = dict(
    level="model_checking", engine="T",
    technique="per generated program: real lian run (main.py semantic); CrossHair (z3) executes the reference GIR interpreter with "
              "symbolic entry arguments, records every call event and checks it against semantic_p3/call_paths_p3 and the "
              "per-context statement status rows",
    text="For every program of the call family and ALL entry arguments (so every call site behind any branch is exercised), each "
         "(caller, call statement, callee) the interpreter performs is a call site of some stored call path, and non-recursive "
         "callees have analysis results under that call-site context. CONFIRMED = all paths of all programs in the slice "
         "exhausted. The family (direct, stored, returned and callback calls, constructors, methods, two-level inheritance, "
         "recursion, several contexts of one site, re-bound names; multi-file: from-imports, aliases, re-exports, module objects) is "
         "the bound.",
    note="Trusted: the reference interpreter's dispatch (validated against CPython by C01 on the same programs), CrossHair/z3, "
         "Python's deterministic hash of int tuples for context ids. Six open known findings, each with its witness program.",
    design="4/C07")

CHECKS["C08"] = dict(
    level="model_checking", engine="T",
    technique="per generated program: real lian run (main.py semantic); CrossHair (z3) executes the reference GIR interpreter with "
              "symbolic unknown inputs and checks every concrete value assigned at a definition against the abstract states lian "
              "stores for that definition (s2space_p3)",
    text="For every program of the value family and ALL unknown inputs, each int/bool/str value a variable takes at a defining "
         "statement is covered by a constant state with the same value or an explicit unknown state of the symbol defined "
         "there; values stored in objects are checked where they are read back. CONFIRMED = all paths of all programs in the "
         "slice exhausted. The literals-are-data clause is represented by two witness programs (open known findings).",
    note="Trusted: the reference interpreter, the table join (stmt_status_p3.defined_symbol -> s2space_p3), CrossHair/z3.",
    design="4/C08")
CHECKS["C09"] = dict(
    level="model_checking", engine="T",
    technique="per generated loop-free program: real lian run; CrossHair (z3) drives the reference interpreter with symbolic branch "
              "DECISIONS so that all control-flow paths (feasible or not) are exhausted; observed values are aggregated and "
              "compared two-sidedly with lian's constant sets",
    text="On loop-free programs over constants, objects, aliases and helper calls, for every definition whose abstract states are "
         "all constants the set lian holds equals the union over ALL control-flow paths of the value written (overwritten "
         "values absent, other fields untouched, per-call-site results); path exhaustion is CrossHair's CONFIRMED verdict over "
         "the decision variables.",
    note="Trusted: the reference interpreter, branch-directed execution as the meaning of 'control-flow path', CrossHair/z3.",
    design="4/C09")

CHECKS["C05"] = dict(
    level="translation_validation", engine="T+X",
    technique="per generated program: real lian run (main.py semantic); CrossHair (z3) executes the reference GIR interpreter under "
              "Python's scoping rules with symbolic inputs and compares, at every executed identifier occurrence, the declaration "
              "owning the accessed storage cell with the declaration lian resolved the occurrence to; kernel: CrossHair symbolic "
              "execution (z3) of the real summarize_symbol_decls + resolve_symbol_source_decl on every small scope forest",
    text="For every program of the scoping family and ALL inputs (so occurrences behind any branch are reached), each executed "
         "read or write of a name is bound by lian (s2space_p1/p3 symbol ids) to the declaration that the language's lexical "
         "scoping selects (parameter, local, enclosing function, module, global/nonlocal). CONFIRMED = all paths of all programs "
         "in the slice exhausted. Kernel (language independent): for every forest of 3 scopes (method/class/block/for kinds, any "
         "nesting, scopes optionally named like the symbol, any subset declaring it), every current scope and both lookup modes, "
         "the real visible-scope closure and resolver return the declaration of the nearest scope of the lexical chain, the "
         "unit's top-level blocks only as a fallback, else unresolved. The renaming clause is outside.",
    note="Trusted: the reference interpreter's Python scoping (validated against CPython by C01 on closure/global programs), "
         "CrossHair/z3. One open known finding (class attribute captures a global inside methods).",
    design="4/C05")

CHECKS["C02"] = dict(
    level="translation_validation", engine="T",
    technique="per (core program, frontend): the real lian frontend lowers the rendering in that language (main.py lang, seven "
              "frontends in one project); CrossHair (z3) symbolically co-executes CPython on the Python rendering and lian's GIR "
              "rows under ONE reference interpreter with ONE instruction vocabulary, for all entry arguments",
    text="Translation validation across frontends: 62 core programs (arithmetic, comparisons and arithmetic with a literal on "
         "either side, nested and double unary operators, unparenthesised precedence/associativity, compound assignment, ++/--, "
         "logical operators, if/else, else-if chains, conditional expressions, while, counted for, break/continue, calls, "
         "recursion) x 7 frontends; for each pair the solver decides equality of outputs "
         "and return value for all arguments; an operation or operand column outside the shared vocabulary makes a program "
         "non-executable and is a divergence. Failing construct x frontend cells are listed individually as known findings; "
         "the matrix defended is written to evidence on every run.",
    note="Trusted: CPython on the Python rendering as reference semantics, the renderers (vlib/core_lang.py), the reference "
         "interpreter, CrossHair/z3. Tolerated extra: TypeScript's expression_stmt (not consumed by any handler).",
    design="4/C02")

NOT_APPLICABLE = {
    "C12": "A relation between two whole-pipeline runs on syntactically edited programs: the quantified objects are "
           "program texts and edit sequences; no run-time input, id, flag or history for a solver to range over; "
           "running pairs of concrete analyses is metamorphic testing, a different technique.",
    "C14": "The varying quantity is the interpreter's string-hash seed acting through set/dict iteration order; "
           "SipHash and CPython's table layout are opaque to SMT and CrossHair models neither; deciding it needs "
           "repeated execution under different seeds, which is not solver-based checking.",
}

NOT_BUILT = "check not built yet in this round (planned in DESIGN.md section 4); not claimed until it exists"


def build():
    props = [json.loads(l)["id"] for l in open(os.path.join(common.VERIF, "properties.jsonl"))]
    checks = []
    for pid in props:
        c = CHECKS.get(pid)
        if not c:
            continue
        checks.append({
            "property_id": pid,
            "quick_cmd": f"./vcheck {pid} --tier quick",
            "thorough_cmd": f"./vcheck {pid} --tier thorough",
            "evidence_file": f"evidence/{pid}.json",
            "replay_cmd_template": f"./vcheck {pid} --replay {{path}}",
            "engine": c["engine"],
            "level_claimed": {"category": c["level"], "text": c["text"], "design_ref": c["design"]},
            "level_note": c["note"],
            "technique": c["technique"],
        })
    na = []
    for pid in props:
        if pid in CHECKS:
            continue
        na.append({"property_id": pid, "reason": NOT_APPLICABLE.get(pid, NOT_BUILT)})
    man = {
        "version": 1,
        "setup_cmd": "./vsetup",
        "hooks": {
            "guard": "LIAN_VERIF",
            "enable": "no source hooks are needed; checks import /repo/src/lian (with the builtins.profile shim main.py "
                      "installs) or run main.py; LIAN_VERIF is reserved and unused",
            "baseline_off_cmd": BASELINE,
            "source_commits": [],
            "add_only": True,
        },
        "engines": [
            {"name": "S", "path": "vlib/sengine.py", "serves_properties": ["C17", "C03", "C13"],
             "kind_free_text": "direct SMT encoding (z3, cross-checked with cvc5) of small kernels read from the AST of /repo"},
            {"name": "X", "path": "vlib/xrun.py", "serves_properties": sorted(p for p, c in CHECKS.items() if "X" in c["engine"]),
             "kind_free_text": "CrossHair (symbolic execution of the real Python with z3) over encoded histories/shapes/graphs, sliced over 16 cores"},
            {"name": "T", "path": "vlib/tengine.py", "serves_properties": sorted(p for p, c in CHECKS.items() if "T" in c["engine"]),
             "kind_free_text": "translation validation: real lian run on an enumerated program family; CPython source and a reference GIR interpreter co-executed under CrossHair with symbolic entry arguments"},
        ],
        "checks": checks,
        "not_applicable": na,
        "notes": "Solver-based checking only. Exit 0 held / 1 VIOLATION / 3 harness error. See DESIGN.md.",
    }
    with open(os.path.join(common.VERIF, "MANIFEST.json"), "w") as f:
        json.dump(man, f, indent=1)
    return man


if __name__ == "__main__":
    m = build()
    import jsonschema
    jsonschema.validate(m, json.load(open("/root/.vp/MANIFEST.schema.json")))
    print("MANIFEST.json written:", len(m["checks"]), "checks,", len(m["not_applicable"]), "not applicable")
