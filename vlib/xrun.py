"""Engine X: run CrossHair harnesses in parallel slices, replay counterexamples natively, fill a Run."""
import concurrent.futures as cf
import json
import os
import subprocess
import sys
import tempfile
import time

from vlib import common

PY = sys.executable
JOBS = int(os.environ.get("VERIF_JOBS", "16"))


def _spawn(mode, module, func, slc, pct=60, ppt=10, cex=None, wall=None):
    fd, cexfile = tempfile.mkstemp(prefix="vcex-", suffix=".jsonl")
    os.close(fd)
    env = dict(os.environ)
    env["VERIF_CEX_FILE"] = cexfile if mode == "analyze" else ""
    env["PYTHONPATH"] = common.VERIF + os.pathsep + env.get("PYTHONPATH", "")
    env.setdefault("PYTHONHASHSEED", "0")
    cmd = [PY, "-m", "vlib.xworker", mode, "--module", module, "--func", func, "--slice", json.dumps(slc),
           "--pct", str(pct), "--ppt", str(ppt), "--cex", json.dumps(cex)]
    t0 = time.time()
    try:
        p = subprocess.run(cmd, capture_output=True, text=True, env=env, cwd=common.VERIF,
                           timeout=wall or (float(pct) * 1.5 + 60))
        out = None
        for line in p.stdout.splitlines():
            if line.startswith("XRESULT "):
                out = json.loads(line[8:])
        if out is None:
            out = {"status": "HARNESS_ERROR", "error": "no result line", "tb": (p.stderr or "")[-2000:]}
    except subprocess.TimeoutExpired:
        out = {"status": "UNKNOWN", "error": "wall timeout", "paths": 0}
    out["wall_s"] = round(time.time() - t0, 2)
    if mode == "analyze":
        try:
            with open(cexfile) as f:
                recs = [json.loads(l) for l in f if l.strip()]
            if recs:
                out["cex"] = recs[:5]
        except OSError:
            pass
    try:
        os.unlink(cexfile)
    except OSError:
        pass
    return out


def _analyze_with_retry(t):
    """CrossHair occasionally ends a search as 'exhausted, not confirmed' well inside its budget (an abandoned
    branch is left as an unexplored stem); the search is randomised, so such a slice is simply run again."""
    r = None
    for attempt in range(3):
        r = _spawn("analyze", t["module"], t["func"], t.get("slice", {}), t.get("pct", 60), t.get("ppt", 10), None,
                   t.get("wall"))
        if r.get("status") == "UNKNOWN" and (r.get("cpu_s") or 1e9) < 0.8 * float(t.get("pct", 60)):
            r["retried"] = attempt + 1
            continue
        break
    return r


def run_many(tasks, jobs=None):
    """tasks: list of dict(module, func, slice, pct, ppt[, wall]).  Returns results in order."""
    with cf.ThreadPoolExecutor(max_workers=jobs or JOBS) as ex:
        futs = [ex.submit(_analyze_with_retry, t) for t in tasks]
        return [f.result() for f in futs]


def replay_native(module, func, slc, cex, wall=600):
    return _spawn("replay", module, func, slc, cex=cex, wall=wall)


class Batch:
    """Collect harness obligations, run all their slices in one pool, then replay and record."""

    def __init__(self, run):
        self.run = run
        self.items = []

    def add(self, name, module, func, slices=None, pct=60, ppt=10, twin=None, bounds=None, engine="X",
            wall=None, twin_slice=None, weight=None):
        self.items.append(dict(name=name, module=module, func=func, slices=slices or [{}], pct=pct, ppt=ppt,
                               twin=twin, bounds=bounds or {}, engine=engine, wall=wall, twin_slice=twin_slice))

    def execute(self):
        tasks = []
        for it in self.items:
            for s in it["slices"]:
                tasks.append((it, "main", dict(module=it["module"], func=it["func"], slice=s, pct=it["pct"],
                                               ppt=it["ppt"], wall=it["wall"])))
            if it["twin"]:
                ts = it["twin_slice"] or it["slices"][0]
                tasks.append((it, "twin", dict(module=it["module"], func=it["twin"], slice=ts, pct=min(it["pct"], 120),
                                               ppt=it["ppt"], wall=it["wall"])))
        # longest first
        order = sorted(range(len(tasks)), key=lambda i: -float(tasks[i][2]["pct"]))
        res = [None] * len(tasks)
        out = run_many([tasks[i][2] for i in order])
        for i, r in zip(order, out):
            res[i] = r
        for (it, kind, t), r in zip(tasks, res):
            if kind == "main":
                _record(self.run, it, t["slice"], r)
            else:
                _record_twin(self.run, it, r)
        self.items = []


def _record(run, it, s, r):
    name, module, func = it["name"], it["module"], it["func"]
    st = r.get("status")
    ob = dict(name=name, engine=it["engine"], func=f"{module}.{func}", slice=s, status=st, paths=r.get("paths", 0),
              cpu_s=r.get("cpu_s"), wall_s=r.get("wall_s"), bounds=it["bounds"])
    run.counters["states"] += r.get("paths", 0)
    run.counters["transitions"] += r.get("paths", 0)
    run.counters["queries"] += r.get("paths", 0)
    run.counters["solver_s"] += r.get("cpu_s") or 0
    if st == "HARNESS_ERROR" or st == "NO_CONDITIONS":
        run.harness_error(f"{name} slice={s}: {r.get('error')} {r.get('tb', '')[-600:]}")
    elif st == "REFUTED":
        cexs = r.get("cex") or []
        if not cexs:
            ob["messages"] = r.get("messages")
            run.harness_error(f"{name} slice={s}: refuted without recorded counterexample: {r.get('messages')}")
        reproduced, last = False, None
        for cex in reversed(cexs):          # the last record belongs to the refuted path; earlier ones may be abandoned paths
            rp = replay_native(module, func, s, cex)
            last = (cex, rp)
            if rp.get("status") == "HARNESS_ERROR" or "violated" not in rp:
                run.harness_error(f"{name}: replay failed: {rp.get('error')} {rp.get('tb', '')[-600:]}")
                reproduced = True
                break
            if rp["violated"]:
                reproduced = True
                ob["status"] = "REFUTED_REPLAYED"
                run.report(name, {"slice": s, "cex": cex, "observed": rp.get("observed")},
                           rp.get("fingerprint", common.short_hash(cex)), rp.get("what", cex.get("kind", "")))
                break
        if cexs and not reproduced:
            run.harness_error(f"{name}: counterexample does not reproduce on the real code: {last}")
    elif st in ("UNKNOWN", "PRE_UNSAT"):
        ob["note"] = ("explored, not exhausted (inconclusive)" if st == "UNKNOWN"
                      else "precondition never met (inconclusive)")
        ob["messages"] = r.get("messages")
    run.add_obligation(**ob)


def _record_twin(run, it, r):
    ok = r.get("status") == "REFUTED"
    run.add_obligation(name=it["name"] + ":reachability-twin", engine=it["engine"],
                       func=f"{it['module']}.{it['twin']}", status="held" if ok else "TWIN_NOT_REFUTED",
                       paths=r.get("paths", 0))
    if not ok:
        run.harness_error(f"{it['name']}: reachability twin {it['twin']} was not refuted: {r.get('status')} "
                          f"{r.get('error')} {r.get('messages')}")


def check(run, name, module, func, **kw):
    b = Batch(run)
    b.add(name, module, func, **kw)
    b.execute()
