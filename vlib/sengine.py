"""Engine S: a small symbolic interpreter over Python ASTs read from /repo, producing z3 terms.

Subset (anything else raises NotEncodable - it never guesses):
  statements : Assign, AugAssign, AnnAssign, Expr, If, For (concrete iterable), While (concrete-bounded), Return,
               Break, Continue, Pass, Assert
  expressions: Name, Constant, Attribute, Subscript, BinOp, BoolOp, UnaryOp, Compare, Call, Tuple, List, IfExp,
               JoinedStr (concrete only)
  values     : concrete Python objects; z3 Int / Bool / BitVec terms; Opt(is_none, term) for Optional[int];
               SRef -> symbolic mutable object living in the state's heap
Control flow : both arms of a symbolic `if` are executed and outcomes of the same kind are merged with ite
               (if-conversion); only unmergeable stores fork.  Infeasible arms are pruned with an incremental solver.
"""
import ast
import inspect
import textwrap
import time

import z3


class NotEncodable(Exception):
    pass


class Opt:
    """Optional word: is_none (z3 Bool) and val (z3 term, meaningful when not is_none)."""

    def __init__(self, is_none, val):
        self.is_none, self.val = is_none, val

    def __repr__(self):
        return f"Opt({self.is_none}, {self.val})"


class SRef:
    """Reference to a symbolic object in State.heap."""
    _n = 0

    def __init__(self, name="obj"):
        SRef._n += 1
        self.oid = SRef._n
        self.name = name

    def __repr__(self):
        return f"<SRef {self.name}#{self.oid}>"


class Stub:
    """A callable modelled by the harness: fn(executor, state, args, kwargs) -> value (may mutate state)."""

    def __init__(self, name, fn):
        self.name, self.fn = name, fn


def is_z3(v):
    return isinstance(v, z3.ExprRef)


def is_sym(v):
    return is_z3(v) or isinstance(v, Opt)


class State:
    def __init__(self, pc=None, env=None, heap=None):
        self.pc = list(pc or [])
        self.env = dict(env or {})
        self.heap = {k: dict(v) for k, v in (heap or {}).items()}

    def copy(self):
        return State(self.pc, self.env, self.heap)


class Outcome:
    def __init__(self, kind, state, value=None):
        self.kind, self.state, self.value = kind, state, value


def lift(a, like):
    """Lift a concrete python value to the z3 sort of `like`."""
    if is_z3(a) or isinstance(a, Opt):
        return a
    if isinstance(like, Opt):
        if a is None:
            return Opt(z3.BoolVal(True), like.val)
        return Opt(z3.BoolVal(False), lift(a, like.val))
    if isinstance(like, z3.BitVecRef) and isinstance(a, int) and not isinstance(a, bool):
        return z3.BitVecVal(a, like.size())
    if isinstance(like, z3.ArithRef) and isinstance(a, int) and not isinstance(a, bool):
        return z3.IntVal(a)
    if isinstance(like, z3.BoolRef) and isinstance(a, bool):
        return z3.BoolVal(a)
    return a


INT_MERGE_BITS = None      # when set, two different concrete ints merge into a bit-vector of that width (flag words)


def merge_val(c, a, b):
    """ite(c, a, b) or None if not mergeable."""
    if a is b:
        return a
    if not is_sym(a) and not is_sym(b):
        try:
            if type(a) is type(b) and a == b:
                return a
        except Exception:
            pass
        if isinstance(a, int) and isinstance(b, int) and not isinstance(a, bool) and not isinstance(b, bool):
            if INT_MERGE_BITS:
                return z3.If(c, z3.BitVecVal(a, INT_MERGE_BITS), z3.BitVecVal(b, INT_MERGE_BITS))
            return z3.If(c, z3.IntVal(a), z3.IntVal(b))
        if isinstance(a, bool) and isinstance(b, bool):
            return z3.If(c, z3.BoolVal(a), z3.BoolVal(b))
        return None
    if isinstance(a, Opt) or isinstance(b, Opt):
        if not isinstance(a, Opt):
            a = lift(a, b)
        if not isinstance(b, Opt):
            b = lift(b, a)
        if not (isinstance(a, Opt) and isinstance(b, Opt)):
            if is_z3(a) and isinstance(b, Opt):
                a = Opt(z3.BoolVal(False), a)
            elif is_z3(b) and isinstance(a, Opt):
                b = Opt(z3.BoolVal(False), b)
            else:
                return None
        v = merge_val(c, a.val, b.val)
        if v is None:
            return None
        return Opt(z3.If(c, a.is_none, b.is_none), v)
    a2, b2 = lift(a, b), lift(b, a)
    if is_z3(a2) and is_z3(b2) and a2.sort() == b2.sort():
        return z3.If(c, a2, b2)
    return None


class Exec:
    def __init__(self, stubs=None, max_paths=4096, word_bits=8, ints_are_words=True):
        global INT_MERGE_BITS
        INT_MERGE_BITS = word_bits if ints_are_words else None
        self.solver = z3.Solver()
        self.stubs = stubs or {}          # id(callable) or callable -> Stub
        self.ast_cache = {}
        self.may_raise = []               # (pc list, description)
        self.queries = 0
        self.solver_s = 0.0
        self.encoded = set()              # qualnames of functions whose AST was executed
        self.max_paths = max_paths
        self.word_bits = word_bits
        self.depth = 0

    # ---- solver ---------------------------------------------------------------------------------
    def feasible(self, pc):
        t0 = time.time()
        self.solver.push()
        self.solver.add(*pc) if pc else None
        r = self.solver.check()
        self.solver.pop()
        self.queries += 1
        self.solver_s += time.time() - t0
        if r == z3.unknown:
            raise NotEncodable("solver returned unknown on a path condition")
        return r == z3.sat

    # ---- truthiness / helpers -------------------------------------------------------------------
    def truth(self, v):
        if isinstance(v, z3.BoolRef):
            return v
        if isinstance(v, z3.BitVecRef):
            return v != z3.BitVecVal(0, v.size())
        if isinstance(v, z3.ArithRef):
            return v != 0
        if isinstance(v, Opt):
            return z3.And(z3.Not(v.is_none), self.truth(v.val))
        if isinstance(v, SRef):
            return True
        return bool(v)

    def need_not_none(self, state, v, what):
        """v is an Opt used where None raises: record the obligation, continue under not-None."""
        if not isinstance(v, Opt):
            return v
        if self.feasible(state.pc + [v.is_none]):
            self.may_raise.append((list(state.pc) + [v.is_none], f"TypeError: {what} on None"))
        state.pc.append(z3.Not(v.is_none))
        return v.val

    # ---- function loading -----------------------------------------------------------------------
    def load(self, fn):
        key = getattr(fn, "__code__", fn)
        if key not in self.ast_cache:
            src = textwrap.dedent(inspect.getsource(fn))
            tree = ast.parse(src)
            fd = tree.body[0]
            if not isinstance(fd, ast.FunctionDef):
                raise NotEncodable(f"not a plain function: {fn}")
            self.ast_cache[key] = fd
        return self.ast_cache[key]

    def call_function(self, fn, args, kwargs, state, bound_self=None):
        """Inline a repo function: returns list of Outcome(kind in return/raise)."""
        fd = self.load(fn)
        self.encoded.add(f"{fn.__module__}.{fn.__qualname__}")
        params = [a.arg for a in fd.args.args]
        defaults = fd.args.defaults
        env = {}
        allargs = ([bound_self] if bound_self is not None else []) + list(args)
        if len(allargs) > len(params):
            raise NotEncodable(f"too many args for {fn.__qualname__}")
        for p, a in zip(params, allargs):
            env[p] = a
        for k, v in kwargs.items():
            env[k] = v
        nd = len(defaults)
        for i, p in enumerate(params):
            if p not in env:
                j = i - (len(params) - nd)
                if j < 0:
                    raise NotEncodable(f"missing arg {p} for {fn.__qualname__}")
                env[p] = self.eval_const_default(defaults[j], fn)
        env["__globals__"] = fn.__globals__
        callee = State(state.pc, env, state.heap)
        self.depth += 1
        if self.depth > 30:
            raise NotEncodable("call depth")
        outs = self.exec_block(fd.body, callee)
        self.depth -= 1
        res = []
        for o in outs:
            if o.kind == "next":
                res.append(Outcome("return", o.state, None))
            elif o.kind in ("return", "raise"):
                res.append(o)
            else:
                raise NotEncodable(f"{o.kind} escaped function {fn.__qualname__}")
        res = self.merge_outcomes(res, with_value=True)
        # transplant: the caller keeps its own env, takes pc/heap from the callee outcome
        final = []
        for o in res:
            st = State(o.state.pc, state.env, o.state.heap)
            final.append(Outcome(o.kind, st, o.value))
        return final

    def eval_const_default(self, node, fn):
        return eval(compile(ast.Expression(node), "<default>", "eval"), fn.__globals__)

    # ---- merging --------------------------------------------------------------------------------
    def merge_outcomes(self, outs, with_value=False):
        """Merge outcomes of the same kind pairwise when all stores are ite-mergeable."""
        result = []
        by_kind = {}
        for o in outs:
            by_kind.setdefault(o.kind, []).append(o)
        for kind, group in by_kind.items():
            acc = group[0]
            rest = []
            for o in group[1:]:
                m = self.merge_two(acc, o, with_value)
                if m is None:
                    rest.append(o)
                else:
                    acc = m
            result.append(acc)
            result.extend(rest)
        if len(result) > self.max_paths:
            raise NotEncodable("path explosion")
        return result

    def merge_two(self, a, b, with_value):
        # common prefix of pcs
        pa, pb = a.state.pc, b.state.pc
        i = 0
        while i < len(pa) and i < len(pb) and pa[i] is pb[i]:
            i += 1
        ca = z3.And(*pa[i:]) if pa[i:] else z3.BoolVal(True)
        cb = z3.And(*pb[i:]) if pb[i:] else z3.BoolVal(True)
        if set(a.state.env) != set(b.state.env):
            # variables defined on one side only: keep only if never needed -> be strict: no merge
            common = set(a.state.env) & set(b.state.env)
        else:
            common = set(a.state.env)
        env = {}
        for k in common:
            v = merge_val(ca, a.state.env[k], b.state.env[k])
            if v is None:
                return None
            env[k] = v
        # one-sided variables are dropped only when compiler temporaries would be; refuse otherwise
        if set(a.state.env) != set(b.state.env):
            return None
        heap = {}
        if set(a.state.heap) != set(b.state.heap):
            return None
        for oid in a.state.heap:
            fa, fb = a.state.heap[oid], b.state.heap[oid]
            if set(fa) != set(fb):
                return None
            heap[oid] = {}
            for f in fa:
                v = merge_val(ca, fa[f], fb[f])
                if v is None:
                    return None
                heap[oid][f] = v
        val = None
        if with_value or a.value is not None or b.value is not None:
            val = merge_val(ca, a.value, b.value)
            if val is None and not (a.value is None and b.value is None):
                return None
        st = State(pa[:i] + [z3.Or(ca, cb)], env, heap)
        return Outcome(a.kind, st, val)

    # ---- statements -----------------------------------------------------------------------------
    def exec_block(self, stmts, state):
        """Returns outcomes; 'next' outcomes have completed the block."""
        active = [state]
        done = []
        for s in stmts:
            new_active = []
            for st in active:
                for o in self.exec_stmt(s, st):
                    if o.kind == "next":
                        new_active.append(o)
                    else:
                        done.append(o)
            merged = self.merge_outcomes(new_active)
            active = [o.state for o in merged]
            if not active:
                break
        return [Outcome("next", st) for st in active] + done

    def exec_stmt(self, s, st):
        if isinstance(s, ast.Expr):
            if isinstance(s.value, ast.Constant):
                return [Outcome("next", st)]
            return self.eval_stmt_expr(s.value, st)
        if isinstance(s, ast.Pass):
            return [Outcome("next", st)]
        if isinstance(s, ast.Assign):
            outs = []
            for st2, v in self.eval(s.value, st):
                for t in s.targets:
                    self.assign(t, v, st2)
                outs.append(Outcome("next", st2))
            return outs
        if isinstance(s, ast.AnnAssign):
            if s.value is None:
                return [Outcome("next", st)]
            outs = []
            for st2, v in self.eval(s.value, st):
                self.assign(s.target, v, st2)
                outs.append(Outcome("next", st2))
            return outs
        if isinstance(s, ast.AugAssign):
            outs = []
            load_t = ast.fix_missing_locations(_as_load(s.target))
            for st2, cur in self.eval(load_t, st):
                for st3, v in self.eval(s.value, st2):
                    r = self.binop(s.op, cur, v, st3)
                    self.assign(s.target, r, st3)
                    outs.append(Outcome("next", st3))
            return outs
        if isinstance(s, ast.Return):
            if s.value is None:
                return [Outcome("return", st, None)]
            return [Outcome("return", st2, v) for st2, v in self.eval(s.value, st)]
        if isinstance(s, ast.Break):
            return [Outcome("break", st)]
        if isinstance(s, ast.Continue):
            return [Outcome("continue", st)]
        if isinstance(s, ast.If):
            outs = []
            for st2, c in self.eval(s.test, st):
                t = self.truth(c)
                if isinstance(t, bool):
                    outs.extend(self.exec_block(s.body if t else s.orelse, st2))
                    continue
                t = z3.simplify(t)
                if z3.is_true(t):
                    outs.extend(self.exec_block(s.body, st2))
                    continue
                if z3.is_false(t):
                    outs.extend(self.exec_block(s.orelse, st2))
                    continue
                nt = z3.Not(t)
                if self.feasible(st2.pc + [t]):
                    a = st2.copy()
                    a.pc.append(t)
                    outs.extend(self.exec_block(s.body, a))
                if self.feasible(st2.pc + [nt]):
                    b = st2.copy()
                    b.pc.append(nt)
                    outs.extend(self.exec_block(s.orelse, b))
            return self.merge_outcomes(outs)
        if isinstance(s, ast.For):
            return self.exec_for(s, st)
        if isinstance(s, ast.While):
            return self.exec_while(s, st)
        if isinstance(s, ast.Assert):
            outs = []
            for st2, c in self.eval(s.test, st):
                t = self.truth(c)
                if isinstance(t, bool):
                    if t:
                        outs.append(Outcome("next", st2))
                    else:
                        outs.append(Outcome("raise", st2, "AssertionError"))
                    continue
                if self.feasible(st2.pc + [z3.Not(t)]):
                    b = st2.copy()
                    b.pc.append(z3.Not(t))
                    outs.append(Outcome("raise", b, "AssertionError"))
                st2.pc.append(t)
                outs.append(Outcome("next", st2))
            return outs
        if isinstance(s, ast.Raise):
            return [Outcome("raise", st, ast.unparse(s))]
        raise NotEncodable(f"statement {type(s).__name__}: {ast.unparse(s)[:80]}")

    def eval_stmt_expr(self, e, st):
        outs = []
        for st2, _ in self.eval(e, st):
            outs.append(Outcome("next", st2))
        return outs

    def exec_for(self, s, st):
        outs_done = []
        res = []
        for st0, it in self.eval(s.iter, st):
            if is_sym(it) or isinstance(it, SRef):
                raise NotEncodable("for over a symbolic iterable")
            items = list(it)
            active = [st0]
            exited = []
            for item in items:
                nxt = []
                for a in active:
                    a = a.copy()
                    self.assign(s.target, item, a)
                    for o in self.exec_block(s.body, a):
                        if o.kind in ("next", "continue"):
                            nxt.append(Outcome("next", o.state))
                        elif o.kind == "break":
                            exited.append(Outcome("next", o.state))
                        else:
                            outs_done.append(o)
                active = [o.state for o in self.merge_outcomes(nxt)]
                if not active:
                    break
            fin = []
            for a in active:
                fin.extend(self.exec_block(s.orelse, a) if s.orelse else [Outcome("next", a)])
            res.extend(fin + exited)
        return self.merge_outcomes(res) + outs_done

    def exec_while(self, s, st, bound=64):
        active = [st]
        res, done = [], []
        for _ in range(bound):
            nxt = []
            for a in active:
                for st2, c in self.eval(s.test, a):
                    t = self.truth(c)
                    if isinstance(t, bool):
                        if not t:
                            res.append(Outcome("next", st2))
                            continue
                        body_states = [st2]
                    else:
                        body_states = []
                        if self.feasible(st2.pc + [z3.Not(t)]):
                            b = st2.copy()
                            b.pc.append(z3.Not(t))
                            res.append(Outcome("next", b))
                        if self.feasible(st2.pc + [t]):
                            b = st2.copy()
                            b.pc.append(t)
                            body_states = [b]
                    for b in body_states:
                        for o in self.exec_block(s.body, b):
                            if o.kind in ("next", "continue"):
                                nxt.append(Outcome("next", o.state))
                            elif o.kind == "break":
                                res.append(Outcome("next", o.state))
                            else:
                                done.append(o)
            active = [o.state for o in self.merge_outcomes(nxt)]
            if not active:
                return self.merge_outcomes(res) + done
        raise NotEncodable("while loop exceeded the unrolling bound")

    def assign(self, target, v, st):
        if isinstance(target, ast.Name):
            st.env[target.id] = v
            return
        if isinstance(target, (ast.Tuple, ast.List)):
            if is_sym(v):
                raise NotEncodable("unpacking a symbolic value")
            vs = list(v)
            if len(vs) != len(target.elts):
                raise NotEncodable("unpack arity")
            for t, x in zip(target.elts, vs):
                self.assign(t, x, st)
            return
        if isinstance(target, ast.Attribute):
            objs = self.eval(target.value, st)
            if len(objs) != 1:
                raise NotEncodable("forking attribute target")
            _, obj = objs[0]
            if isinstance(obj, SRef):
                st.heap.setdefault(obj.oid, {})[target.attr] = v
                return
            raise NotEncodable(f"attribute store on a concrete object: {ast.unparse(target)}")
        raise NotEncodable(f"assignment target {ast.unparse(target)}")

    # ---- expressions: return list of (state, value) ----------------------------------------------
    def eval(self, e, st):
        if isinstance(e, ast.Constant):
            return [(st, e.value)]
        if isinstance(e, ast.Name):
            if e.id in st.env:
                return [(st, st.env[e.id])]
            g = st.env.get("__globals__", {})
            if e.id in g:
                return [(st, g[e.id])]
            import builtins
            if hasattr(builtins, e.id):
                return [(st, getattr(builtins, e.id))]
            raise NotEncodable(f"unbound name {e.id}")
        if isinstance(e, ast.Attribute):
            res = []
            for st2, obj in self.eval(e.value, st):
                if isinstance(obj, SRef):
                    fields = st2.heap.get(obj.oid, {})
                    if e.attr not in fields:
                        raise NotEncodable(f"symbolic object {obj} has no field {e.attr}")
                    res.append((st2, fields[e.attr]))
                elif is_sym(obj):
                    raise NotEncodable(f"attribute {e.attr} of a symbolic value")
                else:
                    res.append((st2, getattr(obj, e.attr)))
            return res
        if isinstance(e, (ast.Tuple, ast.List)):
            combos = [(st, [])]
            for el in e.elts:
                new = []
                for s0, acc in combos:
                    for s1, v in self.eval(el, s0):
                        new.append((s1, acc + [v]))
                combos = new
            return [(s0, tuple(acc) if isinstance(e, ast.Tuple) else list(acc)) for s0, acc in combos]
        if isinstance(e, ast.BinOp):
            res = []
            for s1, a in self.eval(e.left, st):
                for s2, b in self.eval(e.right, s1):
                    res.append((s2, self.binop(e.op, a, b, s2)))
            return res
        if isinstance(e, ast.UnaryOp):
            res = []
            for s1, a in self.eval(e.operand, st):
                if isinstance(e.op, ast.Not):
                    t = self.truth(a)
                    res.append((s1, (not t) if isinstance(t, bool) else z3.Not(t)))
                elif isinstance(e.op, ast.USub):
                    a = self.need_not_none(s1, a, "unary -")
                    res.append((s1, -a))
                elif isinstance(e.op, ast.Invert):
                    a = self.need_not_none(s1, a, "unary ~")
                    res.append((s1, ~a))
                else:
                    raise NotEncodable("unary op")
            return res
        if isinstance(e, ast.BoolOp):
            # operands must be side-effect free; value is the truth value when any operand is symbolic
            combos = [(st, [])]
            for el in e.values:
                new = []
                for s0, acc in combos:
                    for s1, v in self.eval(el, s0):
                        new.append((s1, acc + [v]))
                combos = new
            res = []
            for s0, vals in combos:
                if not any(is_sym(v) for v in vals):
                    r = vals[0]
                    for v in vals[1:]:
                        r = (r and v) if isinstance(e.op, ast.And) else (r or v)
                    res.append((s0, r))
                else:
                    ts = [self.truth(v) for v in vals]
                    ts = [z3.BoolVal(t) if isinstance(t, bool) else t for t in ts]
                    res.append((s0, z3.And(*ts) if isinstance(e.op, ast.And) else z3.Or(*ts)))
            return res
        if isinstance(e, ast.Compare):
            res = []
            for s1, left in self.eval(e.left, st):
                combos = [(s1, [])]
                for c in e.comparators:
                    new = []
                    for s0, acc in combos:
                        for s2, v in self.eval(c, s0):
                            new.append((s2, acc + [v]))
                    combos = new
                for s0, rights in combos:
                    cur = left
                    parts = []
                    for op, r in zip(e.ops, rights):
                        parts.append(self.compare(op, cur, r, s0))
                        cur = r
                    if all(isinstance(p, bool) for p in parts):
                        res.append((s0, all(parts)))
                    else:
                        res.append((s0, z3.And(*[z3.BoolVal(p) if isinstance(p, bool) else p for p in parts])))
            return res
        if isinstance(e, ast.IfExp):
            res = []
            for s1, c in self.eval(e.test, st):
                t = self.truth(c)
                if isinstance(t, bool):
                    res.extend(self.eval(e.body if t else e.orelse, s1))
                    continue
                ra = self.eval(e.body, s1)
                rb = self.eval(e.orelse, s1)
                if len(ra) == 1 and len(rb) == 1 and ra[0][0] is s1 and rb[0][0] is s1:
                    m = merge_val(t, ra[0][1], rb[0][1])
                    if m is not None:
                        res.append((s1, m))
                        continue
                raise NotEncodable("conditional expression with unmergeable arms")
            return res
        if isinstance(e, ast.Subscript):
            res = []
            for s1, obj in self.eval(e.value, st):
                for s2, idx in self.eval(e.slice, s1):
                    if is_sym(obj) or is_sym(idx):
                        raise NotEncodable("symbolic subscript")
                    res.append((s2, obj[idx]))
            return res
        if isinstance(e, ast.Call):
            return self.eval_call(e, st)
        if isinstance(e, ast.JoinedStr):
            return [(st, "<fstring>")]
        raise NotEncodable(f"expression {type(e).__name__}: {ast.unparse(e)[:80]}")

    def binop(self, op, a, b, st):
        if not is_sym(a) and not is_sym(b):
            import operator as o
            table = {ast.Add: o.add, ast.Sub: o.sub, ast.Mult: o.mul, ast.FloorDiv: o.floordiv, ast.Mod: o.mod,
                     ast.BitOr: o.or_, ast.BitAnd: o.and_, ast.BitXor: o.xor, ast.LShift: o.lshift,
                     ast.RShift: o.rshift, ast.Pow: o.pow}
            if type(op) not in table:
                raise NotEncodable(f"operator {type(op).__name__}")
            return table[type(op)](a, b)
        a = self.need_not_none(st, a, f"operator {type(op).__name__}")
        b = self.need_not_none(st, b, f"operator {type(op).__name__}")
        a, b = lift(a, b), lift(b, a)
        if isinstance(op, ast.Add):
            return a + b
        if isinstance(op, ast.Sub):
            return a - b
        if isinstance(op, ast.Mult):
            return a * b
        if isinstance(op, ast.BitOr):
            return a | b
        if isinstance(op, ast.BitAnd):
            return a & b
        if isinstance(op, ast.BitXor):
            return a ^ b
        if isinstance(op, ast.Mod):
            if isinstance(a, z3.ArithRef) or isinstance(b, z3.ArithRef):
                # python % with positive concrete divisor == SMT mod
                if isinstance(b, z3.ArithRef) and not z3.is_int_value(b):
                    raise NotEncodable("mod by a symbolic divisor")
                return a % b
            raise NotEncodable("mod on non-int")
        if isinstance(op, ast.FloorDiv):
            if isinstance(a, z3.ArithRef) and z3.is_int_value(b) and b.as_long() > 0:
                return a / b
            raise NotEncodable("floordiv")
        raise NotEncodable(f"symbolic operator {type(op).__name__}")

    def compare(self, op, a, b, st):
        if isinstance(op, (ast.Is, ast.IsNot)):
            if isinstance(a, Opt) and b is None:
                r = a.is_none
            elif isinstance(b, Opt) and a is None:
                r = b.is_none
            elif is_sym(a) or is_sym(b):
                if a is None or b is None:
                    r = False
                else:
                    raise NotEncodable("is on symbolic values")
            else:
                r = a is b
            if isinstance(op, ast.IsNot):
                return (not r) if isinstance(r, bool) else z3.Not(r)
            return r
        if isinstance(op, (ast.In, ast.NotIn)):
            if is_sym(b) or isinstance(b, SRef):
                raise NotEncodable("in on a symbolic container")
            if not is_sym(a):
                r = a in b
            else:
                parts = [self.compare(ast.Eq(), a, x, st) for x in b]
                parts = [z3.BoolVal(p) if isinstance(p, bool) else p for p in parts]
                r = z3.Or(*parts) if parts else False
            if isinstance(op, ast.NotIn):
                return (not r) if isinstance(r, bool) else z3.Not(r)
            return r
        if not is_sym(a) and not is_sym(b):
            import operator as o
            table = {ast.Eq: o.eq, ast.NotEq: o.ne, ast.Lt: o.lt, ast.LtE: o.le, ast.Gt: o.gt, ast.GtE: o.ge}
            return table[type(op)](a, b)
        if isinstance(op, (ast.Eq, ast.NotEq)):
            # None-aware equality
            if isinstance(a, Opt) or isinstance(b, Opt):
                if not isinstance(a, Opt):
                    a, b = b, a
                if isinstance(b, Opt):
                    eq = z3.Or(z3.And(a.is_none, b.is_none),
                               z3.And(z3.Not(a.is_none), z3.Not(b.is_none), a.val == lift(b.val, a.val)))
                elif b is None:
                    eq = a.is_none
                else:
                    bb = lift(b, a.val)
                    if not is_z3(bb):
                        eq = z3.BoolVal(False)
                    else:
                        eq = z3.And(z3.Not(a.is_none), a.val == bb)
            else:
                if a is None or b is None:
                    eq = z3.BoolVal(False)
                else:
                    a2, b2 = lift(a, b), lift(b, a)
                    if not (is_z3(a2) and is_z3(b2)):
                        eq = z3.BoolVal(False)
                    else:
                        eq = a2 == b2
            return eq if isinstance(op, ast.Eq) else z3.Not(eq)
        a = self.need_not_none(st, a, "ordering comparison")
        b = self.need_not_none(st, b, "ordering comparison")
        a, b = lift(a, b), lift(b, a)
        if isinstance(a, z3.BitVecRef):
            t = {ast.Lt: z3.ULT, ast.LtE: z3.ULE, ast.Gt: z3.UGT, ast.GtE: z3.UGE}[type(op)]
            return t(a, b)
        return {ast.Lt: lambda: a < b, ast.LtE: lambda: a <= b, ast.Gt: lambda: a > b, ast.GtE: lambda: a >= b}[type(op)]()

    def eval_call(self, e, st):
        # evaluate callee
        res = []
        bound_self = None
        if isinstance(e.func, ast.Attribute):
            owners = self.eval(e.func.value, st)
        else:
            owners = [(st, None)]
        for s0, owner in owners:
            if isinstance(e.func, ast.Attribute):
                if isinstance(owner, SRef) or is_sym(owner):
                    raise NotEncodable(f"method call on a symbolic value: {ast.unparse(e)[:60]}")
                fn = getattr(owner, e.func.attr)
            else:
                (s0, fn), = self.eval(e.func, s0)
            # arguments
            combos = [(s0, [], {})]
            for a in e.args:
                if isinstance(a, ast.Starred):
                    raise NotEncodable("starred arg")
                new = []
                for s1, acc, kw in combos:
                    for s2, v in self.eval(a, s1):
                        new.append((s2, acc + [v], kw))
                combos = new
            for k in e.keywords:
                if k.arg is None:
                    raise NotEncodable("**kwargs")
                new = []
                for s1, acc, kw in combos:
                    for s2, v in self.eval(k.value, s1):
                        d = dict(kw)
                        d[k.arg] = v
                        new.append((s2, acc, d))
                combos = new
            for s1, args, kwargs in combos:
                res.extend(self.apply(fn, args, kwargs, s1, e))
        return res

    def apply(self, fn, args, kwargs, st, node=None):
        stub = None
        if isinstance(fn, Stub):
            stub = fn
        else:
            try:
                stub = self.stubs.get(fn)
            except TypeError:
                stub = None
            if stub is None and hasattr(fn, "__func__"):
                try:
                    stub = self.stubs.get(fn.__func__)
                except TypeError:
                    stub = None
        if stub is not None:
            st = st.copy()
            v = stub.fn(self, st, args, kwargs)
            return [(st, v)]
        mod = getattr(fn, "__module__", "") or ""
        is_repo = mod.startswith("lian") and (inspect.isfunction(fn) or inspect.ismethod(fn))
        if is_repo:
            f = fn.__func__ if inspect.ismethod(fn) else fn
            bs = fn.__self__ if inspect.ismethod(fn) else None
            outs = self.call_function(f, args, kwargs, st, bound_self=bs)
            res = []
            for o in outs:
                if o.kind == "return":
                    res.append((o.state, o.value))
                else:
                    self.may_raise.append((list(o.state.pc), f"raise in {f.__qualname__}: {o.value}"))
            return res
        # native call on concrete arguments
        if any(is_sym(a) or isinstance(a, SRef) for a in args) or any(is_sym(v) for v in kwargs.values()):
            if fn is isinstance and len(args) == 2:
                a, t = args
                ts = t if isinstance(t, tuple) else (t,)
                if isinstance(a, z3.BoolRef):
                    return [(st, bool in ts or int in ts)]
                if isinstance(a, (z3.BitVecRef, z3.ArithRef)):
                    return [(st, int in ts)]
                if isinstance(a, SRef):
                    return [(st, False)]
            if fn is bool and len(args) == 1:
                return [(st, self.truth(args[0]))]
            raise NotEncodable(f"native call with symbolic argument: {ast.unparse(node)[:80] if node else fn}")
        allowed_mutators = ()
        return [(st, fn(*args, **kwargs))]


def _as_load(target):
    t = ast.parse(ast.unparse(target), mode="eval").body
    return t


# ---- SMT-LIB cross-check -------------------------------------------------------------------------
def cross_check_cvc5(assertions, expect, timeout_ms=20000):
    """Re-decide `assertions` (list of z3 Bool terms) with cvc5 through SMT-LIB2.  Returns (agrees, answer)."""
    try:
        import cvc5
    except Exception:
        return None, "cvc5 not available"
    s = z3.Solver()
    s.add(*assertions)
    text = "(set-logic ALL)\n" + s.to_smt2()
    try:
        slv = cvc5.Solver()
        slv.setOption("tlimit-per", str(timeout_ms))
        parser = cvc5.InputParser(slv)
        parser.setStringInput(cvc5.InputLanguage.SMT_LIB_2_6, text, "q")
        sm = parser.getSymbolManager()
        answer = None
        while True:
            cmd = parser.nextCommand()
            if cmd.isNull():
                break
            out = cmd.invoke(slv, sm)
            o = str(out).strip()
            if o in ("sat", "unsat", "unknown"):
                answer = o
            if "(error" in o:
                return None, o
        return (answer == expect), answer
    except Exception as ex:  # noqa
        return None, f"cvc5 error: {ex}"
