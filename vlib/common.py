"""Shared plumbing for every check: paths, lian import shim, evidence, known findings, replay files.

Exit codes used by ./vcheck:
  0  property held on everything explored (KNOWN-FINDING lines possible)
  1  a replayed counterexample that known_findings.json does not list (VIOLATION line printed)
  3  harness error (translator/stub disagreement, solver error, counterexample that does not replay)
"""
import builtins
import hashlib
import json
import os
import sys
import time

VERIF = os.path.dirname(os.path.dirname(os.path.abspath(__file__)))
REPO = os.environ.get("VERIF_REPO", "/repo")
SRC = os.path.join(REPO, "src")
EVIDENCE_DIR = os.environ.get("VERIF_EVIDENCE_DIR") or os.path.join(VERIF, "evidence")
REPLAY_DIR = os.environ.get("VERIF_REPLAY_DIR") or os.path.join(VERIF, "replays")
KNOWN_FILE = os.path.join(VERIF, "known_findings.json")

EXIT_OK, EXIT_VIOLATION, EXIT_HARNESS = 0, 1, 3


class HarnessError(Exception):
    """The machinery (not lian) is wrong or could not run."""


def setup_lian():
    """Make `import lian...` work the way main.py arranges it, from /repo's working tree."""
    if not hasattr(builtins, "profile"):
        builtins.profile = lambda f: f
    if SRC not in sys.path:
        sys.path.insert(0, SRC)
    os.environ.setdefault("LIAN_VERIF", "1")


def seed():
    try:
        return int(os.environ.get("VERIF_SEED", "0"))
    except ValueError:
        return 0


def file_hash(path):
    with open(path, "rb") as f:
        return hashlib.sha256(f.read()).hexdigest()[:16]


def src_ref(relpath, *qualnames):
    """Describe encoded functions: file, qualnames and a hash of the current source."""
    p = os.path.join(REPO, relpath)
    return {"file": relpath, "functions": list(qualnames), "sha256_16": file_hash(p) if os.path.exists(p) else None}


def canon(obj):
    return json.dumps(obj, sort_keys=True, separators=(",", ":"), default=str)


def short_hash(obj):
    return hashlib.sha256(canon(obj).encode()).hexdigest()[:12]


# ----------------------------------------------------------------------------------------------
# known findings
# ----------------------------------------------------------------------------------------------
def load_known(pid):
    """Entries of known_findings.json for property `pid` with status 'open' (fixed entries suppress nothing)."""
    if not os.path.exists(KNOWN_FILE):
        return []
    with open(KNOWN_FILE) as f:
        data = json.load(f)
    return [e for e in data.get("findings", []) if e.get("property") == pid and e.get("status") == "open"]


# ----------------------------------------------------------------------------------------------
# result accumulation
# ----------------------------------------------------------------------------------------------
class Run:
    """Accumulates what a check covered; writes evidence; decides the exit code."""

    def __init__(self, pid, tier, level):
        self.pid = pid
        self.tier = tier
        self.level = level
        self.t0 = time.time()
        self.obligations = []       # dicts: name, engine, status, bounds, paths, time_s, ...
        self.samples = []
        self.encoded = []           # src_ref dicts
        self.assumptions = []
        self.stubs = []
        self.outside = []
        self.violations = []        # dicts: obligation, cex, replay (path)
        self.known_hits = []        # (entry, cex)
        self.harness_errors = []
        self.extra = {}
        self.known = load_known(pid)
        self.counters = {"states": 0, "transitions": 0, "replayed": 0, "programs": 0,
                         "queries": 0, "solver_s": 0.0}

    # -- reporting -----------------------------------------------------------------------------
    def add_obligation(self, **kw):
        self.obligations.append(kw)

    def add_sample(self, s, cap=12):
        if len(self.samples) < cap:
            self.samples.append(s)

    def harness_error(self, msg):
        self.harness_errors.append(msg)
        print(f"HARNESS-ERROR property={self.pid} {msg}", flush=True)

    def match_known(self, fingerprint):
        for e in self.known:
            if e.get("fingerprint") == fingerprint:
                return e
        return None

    def report(self, obligation, cex, fingerprint, what):
        """A counterexample that reproduced on the real code. Known -> KNOWN-FINDING, else VIOLATION."""
        self.counters["replayed"] += 1
        e = self.match_known(fingerprint)
        if e is not None:
            if not any(k[0] is e for k in self.known_hits):
                print(f"KNOWN-FINDING: property={self.pid} {e.get('what', what)}", flush=True)
            self.known_hits.append((e, cex))
            return False
        os.makedirs(os.path.join(REPLAY_DIR, self.pid), exist_ok=True)
        path = os.path.join(REPLAY_DIR, self.pid, short_hash([obligation, cex]) + ".json")
        with open(path, "w") as f:
            json.dump({"property": self.pid, "obligation": obligation, "cex": cex,
                       "fingerprint": fingerprint, "what": what}, f, indent=1, default=str)
        self.violations.append({"obligation": obligation, "cex": cex, "replay": path, "what": what,
                                "fingerprint": fingerprint})
        print(f"VIOLATION property={self.pid} replay={path}", flush=True)
        print(f"  obligation={obligation} what={what}", flush=True)
        return True

    # -- finish --------------------------------------------------------------------------------
    def finish(self):
        wall = time.time() - self.t0
        n_ob = len(self.obligations)
        exhausted = sum(1 for o in self.obligations if o.get("status") in ("CONFIRMED", "unsat", "held"))
        cov = {
            "obligations": n_ob,
            "discharged": exhausted,
            "exhaustive": n_ob > 0 and exhausted == n_ob and not self.violations,
            "obligation_details": self.obligations,
            "functions_encoded": self.encoded,
            "stubs": self.stubs,
            "outside_the_claim": self.outside,
            "queries": self.counters["queries"],
            "solver_time_s": round(self.counters["solver_s"], 3),
            "samples": self.samples or ["(no sample recorded)"],
            "known_findings_hit": [e.get("fingerprint") for e, _ in self.known_hits],
            "violations_detail": self.violations,
            "harness_errors": self.harness_errors,
        }
        cov.update(self.extra)
        if self.level == "model_checking":
            cov["states"] = max(1, int(self.counters["states"]))
            cov["transitions"] = max(1, int(self.counters["transitions"]))
            cov["traces_validated_against_impl"] = int(self.counters["replayed"])
        elif self.level == "translation_validation":
            cov["programs"] = max(1, int(self.counters["programs"]))
            cov["disagreements_checked"] = int(self.counters["replayed"])
        ev = {
            "property_id": self.pid,
            "tier": self.tier,
            "seed": seed(),
            "level": self.level,
            "coverage": cov,
            "assumptions": self.assumptions,
            "wall_s": round(wall, 2),
            "violations": len(self.violations),
        }
        os.makedirs(EVIDENCE_DIR, exist_ok=True)
        tmp = os.path.join(EVIDENCE_DIR, f".{self.pid}.json.tmp")
        with open(tmp, "w") as f:
            json.dump(ev, f, indent=1, default=str)
        os.replace(tmp, os.path.join(EVIDENCE_DIR, f"{self.pid}.json"))
        inconclusive = n_ob - exhausted
        print(f"SUMMARY property={self.pid} tier={self.tier} obligations={n_ob} decided={exhausted} "
              f"inconclusive={inconclusive} violations={len(self.violations)} "
              f"known={len(set(id(e) for e, _ in self.known_hits))} wall={wall:.1f}s", flush=True)
        if self.violations:
            return EXIT_VIOLATION
        if self.harness_errors:
            return EXIT_HARNESS
        return EXIT_OK
