"""Reference GIR interpreter (trusted base of Engine T; DESIGN section 10).

Executes the flat rows lian stored for one or several units.  Only the operations below are implemented; anything else
raises OutOfVocabulary.  Deliberate non-features: no recomputation of loop conditions, no short-circuit reconstruction for
and/or, no re-quoting of string operands, no tolerance for a use before any definition.
"""
import ast
import re

_INT = re.compile(r"^-?\d+$")


class OutOfVocabulary(Exception):
    pass


class GirError(Exception):
    """An output-visible run-time error of the GIR program (unbound name, bad call, ...)."""


class Thrown(Exception):
    def __init__(self, value):
        self.value = value


class Func:
    def __init__(self, row, env, cls=None):
        self.row, self.env, self.cls = row, env, cls

    def __repr__(self):
        return f"<gir func {self.row.get('name')}>"


class Cls:
    def __init__(self, row, name):
        self.row, self.name = row, name
        self.methods = {}
        self.static = {}
        self.supers = []

    def find(self, name):
        if name in self.methods:
            return self.methods[name]
        for s in self.supers:
            m = s.find(name)
            if m is not None:
                return m
        return None

    def find_static(self, name):
        if name in self.static:
            return True, self.static[name]
        for s in self.supers:
            ok, v = s.find_static(name)
            if ok:
                return ok, v
        return False, None


class Obj:
    def __init__(self, cls):
        self.cls = cls
        self.fields = {}


class Bound:
    def __init__(self, obj, func):
        self.obj, self.func = obj, func


class Act:
    """One activation (or the module scope when parent is None)."""
    _n = 0

    def __init__(self, parent, method_id, this=None, cls=None, module=None):
        Act._n += 1
        self.id = Act._n
        self.vars = {}
        self.parent = parent           # defining activation (lexical), None for module
        self.method_id = method_id
        self.this = this
        self.cls = cls
        self.module = module if module is not None else self
        self.globals_decl = set()
        self.nonlocal_decl = set()


def _clean(v):
    if v is None:
        return None
    if isinstance(v, float):
        if v != v:
            return None
        if v == int(v):
            return int(v)
    return v


def normalise_rows(rows):
    out = []
    for r in rows:
        d = {}
        for k, v in r.items():
            v = _clean(v)
            if v is not None:
                d[k] = v
        out.append(d)
    return out


class Unit:
    def __init__(self, rows):
        self.rows = normalise_rows(rows)
        self.by_id = {}
        self.children = {}        # block id -> [rows]
        self.block_owner = {}
        stack = []
        self.top = []
        for r in self.rows:
            op = r["operation"]
            if op == "block_start":
                stack.append(r["stmt_id"])
                self.children[r["stmt_id"]] = []
                self.block_owner[r["stmt_id"]] = r["parent_stmt_id"]
                continue
            if op == "block_end":
                stack.pop()
                continue
            self.by_id[r["stmt_id"]] = r
            if stack:
                self.children[stack[-1]].append(r)
            else:
                self.top.append(r)


class Interp:
    def __init__(self, units, hooks=None, fuel=20000, inputs=None):
        """units: {name: rows}; inputs: values returned by the external input function inp(k)"""
        self.inputs = inputs
        self.cur_stmt = None
        self.sink_events = []
        self.units = {n: Unit(rows) for n, rows in units.items()}
        self.outs = []
        self.hooks = hooks or {}
        self.fuel = fuel
        self.modules = {}
        self.steps = 0

    # ---- module set-up --------------------------------------------------------------------------------------
    def load_module(self, name):
        if name in self.modules:
            return self.modules[name]
        u = self.units[name]
        mod = Act(None, 0)
        mod.unit = u
        self.modules[name] = mod
        init = None
        for r in u.top:
            op = r["operation"]
            if op == "method_decl":
                if r.get("name") == "%unit_init":
                    init = r
                else:
                    mod.vars[r["name"]] = Func(r, mod)
            elif op == "class_decl":
                self.exec_class_decl(r, mod)
            elif op in ("variable_decl", "import_stmt", "from_import_stmt", "package_stmt"):
                if op not in ("variable_decl", "package_stmt"):
                    self.exec_stmt(r, mod)
            else:
                raise OutOfVocabulary(f"top-level {op}")
        if init is not None:
            act = Act(mod, init["stmt_id"], module=mod)
            act.vars = mod.vars          # the unit initialiser runs in the module's own scope
            sig = self.exec_block(init.get("body"), act)
        return mod

    def call_entry(self, module, fname, args):
        mod = self.load_module(module)
        f = mod.vars.get(fname)
        if not isinstance(f, Func):
            for v in list(mod.vars.values()):       # entry declared as a (static) method of a top-level class
                if isinstance(v, Cls) and v.find(fname) is not None:
                    f = v.find(fname)
                    break
        if not isinstance(f, Func):
            raise GirError(f"entry {fname} is not a function")
        return self.call_func(f, list(args), {}, None, caller=(mod, 0))

    # ---- values -----------------------------------------------------------------------------------------------
    def lookup(self, name, act):
        if name in act.globals_decl:
            if name in act.module.vars:
                hb = self.hooks.get("on_bind")
                if hb:
                    hb(act, act.module, name)
                return act.module.vars[name]
            raise GirError(f"unbound global {name}")
        a = act
        while a is not None:
            if name in a.vars and not (a is not act and a.cls is not None and a.method_id == -2):
                h = self.hooks.get("on_use")
                if h:
                    h(act, a, name)
                hb = self.hooks.get("on_bind")
                if hb:
                    hb(act, a, name)
                return a.vars[name]
            a = a.parent
        c = act.cls
        if c is not None:
            m = c.find(name)                 # unqualified call of a method of the enclosing class (Java-style static/implicit this)
            if m is not None:
                return Bound(act.this, m) if act.this is not None else m
        if name in BUILTINS:
            return BUILTINS[name]
        if name == "inp" and self.inputs is not None:
            return Builtin(lambda i, p, n: i.inputs[p[0]])
        raise GirError(f"unbound name {name}")

    def val(self, text, act):
        if text is None:
            return None
        if not isinstance(text, str):
            return text
        t = text
        if t == "%this":
            return act.this
        if t == "%class":
            return act.cls
        if _INT.match(t):
            return int(t)
        if len(t) >= 2 and t[0] == t[-1] and t[0] in "\"'":
            return t[1:-1]
        if t in ("true", "True"):
            return True
        if t in ("false", "False"):
            return False
        if t in ("null", "None", "none", "nil", "NULL"):
            return None
        return self.lookup(t, act)

    def store(self, name, value, act, stmt=None):
        if name is None:
            return
        owner = act
        if name in act.globals_decl:
            act.module.vars[name] = value
            owner = act.module
        elif name in act.nonlocal_decl:
            a = act.parent
            while a is not None:
                if name in a.vars:
                    a.vars[name] = value
                    owner = a
                    break
                a = a.parent
            else:
                raise GirError(f"nonlocal {name} not found")
        else:
            act.vars[name] = value
        hb = self.hooks.get("on_bind")
        if hb and stmt is not None:
            hb(act, owner, name)
        h = self.hooks.get("on_def")
        if h and stmt is not None:
            h(act, stmt, name, value)

    # ---- execution ---------------------------------------------------------------------------------------------
    def exec_block(self, block_id, act):
        if block_id is None:
            return None
        u = act.module.unit
        for r in u.children.get(block_id, []):
            sig = self.exec_stmt(r, act)
            if sig is not None:
                return sig
        return None

    def tick(self, r, act):
        self.steps += 1
        if self.steps > self.fuel:
            raise GirError("fuel exhausted")
        act.cur = r
        self.cur_stmt = r
        h = self.hooks.get("on_stmt")
        if h:
            h(act, r)

    def exec_stmt(self, r, act):
        op = r["operation"]
        m = getattr(self, "op_" + op, None)
        if m is None:
            raise OutOfVocabulary(op)
        if op not in ("while_stmt", "for_stmt", "forin_stmt"):
            self.tick(r, act)
        return m(r, act)

    # declarations
    def op_variable_decl(self, r, act):
        return None

    def op_parameter_decl(self, r, act):
        return None

    def op_pass_stmt(self, r, act):
        return None

    def op_package_stmt(self, r, act):
        return None

    def op_expression_stmt(self, r, act):
        # emitted by the TypeScript frontend after an expression used as a statement; it names an already computed value and
        # is not consumed by any analysis handler: tolerated as a no-op (listed in evidence)
        return None

    def op_global_stmt(self, r, act):
        act.globals_decl.add(r["name"])

    def op_nonlocal_stmt(self, r, act):
        act.nonlocal_decl.add(r["name"])

    def op_method_decl(self, r, act):
        self.store(r["name"], Func(r, act), act, r)

    def op_class_decl(self, r, act):
        self.exec_class_decl(r, act)

    def exec_class_decl(self, r, act):
        c = Cls(r, r["name"])
        u = act.module.unit
        sup = r.get("supers")
        if sup:
            names = ast.literal_eval(sup) if isinstance(sup, str) and sup.startswith("[") else [sup]
            for n in names:
                s = self.lookup(n, act)
                if isinstance(s, Cls):
                    c.supers.append(s)
        sinit = None
        for mr in u.children.get(r.get("methods"), []):
            if mr["operation"] == "method_decl":
                if mr["name"] == "%class_sinit":
                    sinit = mr
                else:
                    c.methods[mr["name"]] = Func(mr, act, cls=c)
        self.store(r["name"], c, act, r)
        if sinit is not None:
            a = Act(act, sinit["stmt_id"], cls=c, module=act.module)
            self.exec_block(sinit.get("body"), a)
            # names assigned directly in the class initialiser are class attributes
            for k, v in a.vars.items():
                c.static.setdefault(k, v)
        return None

    # expressions
    def op_assign_stmt(self, r, act):
        a = self.val(r.get("operand"), act)
        o = r.get("operator")
        if o is None:
            v = a
        elif "operand2" not in r:
            v = unary(o, a)
        else:
            v = binary(o, a, self.val(r.get("operand2"), act))
        self.store(r.get("target"), v, act, r)

    def args_of(self, r, act):
        pos = []
        pa = r.get("positional_args")
        if pa:
            for t in ast.literal_eval(pa):
                pos.append(self.val(t, act))
        named = {}
        na = r.get("named_args")
        if na:
            for k, t in ast.literal_eval(na).items():
                named[k] = self.val(t, act)
        if r.get("packed_positional_args") or r.get("packed_named_args"):
            raise OutOfVocabulary("packed arguments")
        return pos, named

    def op_call_stmt(self, r, act):
        f = self.val(r.get("name"), act)
        pos, named = self.args_of(r, act)
        v = self.apply(f, pos, named, act, r)
        self.store(r.get("target"), v, act, r)

    def apply(self, f, pos, named, act, r):
        if isinstance(f, Builtin):
            return f.fn(self, pos, named)
        if isinstance(f, Func):
            return self.call_func(f, pos, named, None, caller=(act, r["stmt_id"]))
        if isinstance(f, Bound):
            return self.call_func(f.func, pos, named, f.obj, caller=(act, r["stmt_id"]))
        if isinstance(f, Cls):
            o = Obj(f)
            init = f.find("__init__")
            if init is not None:
                self.call_func(init, pos, named, o, caller=(act, r["stmt_id"]))
            elif pos or named:
                raise GirError("constructor arguments without __init__")
            return o
        raise GirError(f"call of a non-callable {f!r}")

    def call_func(self, f, pos, named, this, caller):
        u = f.env.module.unit
        act = Act(f.env, f.row["stmt_id"], this=this, cls=f.cls, module=f.env.module)
        h = self.hooks.get("on_call")
        if h:
            h(caller[0], caller[1], f.row["stmt_id"])
        params = [p for p in u.children.get(f.row.get("parameters"), []) if p["operation"] == "parameter_decl"]
        pos = list(pos)
        named = dict(named)
        for p in params:
            n = p["name"]
            self.tick(p, act)
            attrs = p.get("attrs") or ""
            if "packed" in attrs:
                raise OutOfVocabulary("packed parameter")
            if pos:
                act.vars[n] = pos.pop(0)
            elif n in named:
                act.vars[n] = named.pop(n)
            elif "default_value" in p:
                act.vars[n] = self.val(p["default_value"], f.env)
            else:
                raise GirError(f"missing argument {n}")
            hd = self.hooks.get("on_def")
            if hd:
                hd(act, p, n, act.vars[n])
        if pos or named:
            raise GirError("too many arguments")
        sig = self.exec_block(f.row.get("body"), act)
        hx = self.hooks.get("on_exit")
        if hx:
            hx(act, sig)
        if sig is not None and sig[0] == "return":
            return sig[1]
        if sig is not None:
            raise GirError(f"{sig[0]} outside a loop")
        return None

    def op_object_call_stmt(self, r, act):
        o = self.val(r.get("receiver_object"), act)
        pos, named = self.args_of(r, act)
        field = r.get("field")
        if isinstance(o, Obj):
            if field in o.fields:
                v = self.apply(o.fields[field], pos, named, act, r)
            else:
                m = o.cls.find(field)
                if m is None:
                    raise GirError(f"no method {field}")
                v = self.call_func(m, pos, named, o, caller=(act, r["stmt_id"]))
        elif isinstance(o, Cls):
            m = o.find(field)
            if m is None:
                raise GirError(f"no method {field}")
            v = self.call_func(m, pos, named, None, caller=(act, r["stmt_id"]))
        elif isinstance(o, list) and field == "append" and len(pos) == 1:
            o.append(pos[0])
            v = None
        elif isinstance(o, Act):        # imported module
            v = self.apply(o.vars[field], pos, named, act, r)
        else:
            raise OutOfVocabulary(f"method call {field} on {type(o).__name__}")
        self.store(r.get("target"), v, act, r)

    def op_return_stmt(self, r, act):
        return ("return", self.val(r.get("name"), act) if r.get("name") not in (None, "") else None)

    def op_break_stmt(self, r, act):
        return ("break",)

    def op_continue_stmt(self, r, act):
        return ("continue",)

    def op_if_stmt(self, r, act):
        c = self.val(r.get("condition"), act)
        h = self.hooks.get("decide")
        if h:
            c = h(act, r, c)
        if c:
            return self.exec_block(r.get("then_body"), act)
        return self.exec_block(r.get("else_body"), act)

    def op_while_stmt(self, r, act):
        broke = False
        while True:
            if r.get("condition_prebody") is not None:
                self.exec_block(r.get("condition_prebody"), act)
            self.tick(r, act)
            if not self.val(r.get("condition"), act):
                break
            sig = self.exec_block(r.get("body"), act)
            if sig is not None:
                if sig[0] == "break":
                    broke = True
                    break
                if sig[0] == "return":
                    return sig
        if not broke and r.get("else_body") is not None:
            return self.exec_block(r.get("else_body"), act)
        return None

    def op_for_stmt(self, r, act):
        sig = self.exec_block(r.get("init_body"), act)
        while True:
            if r.get("condition_prebody") is not None:
                self.exec_block(r.get("condition_prebody"), act)
            self.tick(r, act)
            if r.get("condition") is not None and not self.val(r.get("condition"), act):
                break
            sig = self.exec_block(r.get("body"), act)
            if sig is not None:
                if sig[0] == "break":
                    break
                if sig[0] == "return":
                    return sig
            self.exec_block(r.get("update_body"), act)
        return None

    def op_forin_stmt(self, r, act):
        act.cur = r
        seq = self.val(r.get("receiver"), act)
        if isinstance(seq, dict):
            seq = list(seq.keys())
        broke = False
        for item in list(seq):
            self.tick(r, act)
            self.store(r.get("name"), item, act, r)
            sig = self.exec_block(r.get("body"), act)
            if sig is not None:
                if sig[0] == "break":
                    broke = True
                    break
                if sig[0] == "return":
                    return sig
        else:
            self.tick(r, act)
        if not broke and r.get("else_body") is not None:
            return self.exec_block(r.get("else_body"), act)
        return None

    def mutated(self, name, act, r):
        """a write into a container/object reached through variable `name` (lian treats it as a definition of that symbol)"""
        h = self.hooks.get("on_def")
        if h and isinstance(name, str) and name in act.vars:
            h(act, r, name, None)

    # data
    def op_new_array(self, r, act):
        self.store(r.get("target"), [], act, r)

    def op_array_write(self, r, act):
        arr = self.val(r.get("array"), act)
        idx = self.val(r.get("index"), act)
        src = self.val(r.get("source"), act)
        if isinstance(arr, dict):
            arr[idx] = src
        elif isinstance(arr, list):
            if idx == len(arr):
                arr.append(src)
            else:
                arr[idx] = src
        else:
            raise GirError("array_write on a non-array")
        self.mutated(r.get("array"), act, r)

    def op_array_read(self, r, act):
        arr = self.val(r.get("array"), act)
        idx = self.val(r.get("index"), act)
        if not isinstance(arr, (list, dict, str)):
            raise GirError("array_read on a non-array")
        self.store(r.get("target"), arr[idx], act, r)

    def op_array_append(self, r, act):
        self.val(r.get("array"), act).append(self.val(r.get("source"), act))
        self.mutated(r.get("array"), act, r)

    def op_new_record(self, r, act):
        self.store(r.get("target"), {}, act, r)

    def op_record_write(self, r, act):
        rec = self.val(r.get("receiver_record"), act)
        rec[self.val(r.get("key"), act)] = self.val(r.get("value"), act)
        self.mutated(r.get("receiver_record"), act, r)

    def op_field_write(self, r, act):
        o = self.val(r.get("receiver_object"), act)
        v = self.val(r.get("source"), act)
        if isinstance(o, Obj):
            o.fields[r["field"]] = v
        elif isinstance(o, Cls):
            o.static[r["field"]] = v
        else:
            raise GirError(f"field_write on {type(o).__name__}")
        self.mutated(r.get("receiver_object"), act, r)

    def op_field_read(self, r, act):
        o = self.val(r.get("receiver_object"), act)
        f = r["field"]
        if isinstance(o, Obj):
            if f in o.fields:
                v = o.fields[f]
            else:
                ok, v = o.cls.find_static(f)
                if not ok:
                    m = o.cls.find(f)
                    if m is None:
                        raise GirError(f"no field {f}")
                    v = Bound(o, m)
        elif isinstance(o, Cls):
            ok, v = o.find_static(f)
            if not ok:
                m = o.find(f)
                if m is None:
                    raise GirError(f"no static field {f}")
                v = m
        elif isinstance(o, Act):
            v = o.vars[f]
        else:
            raise GirError(f"field_read on {type(o).__name__}")
        self.store(r.get("target"), v, act, r)

    def op_slice_read(self, r, act):
        arr = self.val(r.get("array"), act)
        s = self.val(r.get("start"), act) if r.get("start") not in (None, "") else None
        e = self.val(r.get("end"), act) if r.get("end") not in (None, "") else None
        st = self.val(r.get("step"), act) if r.get("step") not in (None, "") else None
        self.store(r.get("target"), arr[s:e:st], act, r)

    def op_import_stmt(self, r, act):
        name = r.get("name")
        mod = self.load_module(name.split(".")[-1]) if name.split(".")[-1] in self.units else None
        if mod is None:
            raise OutOfVocabulary(f"import of unknown unit {name}")
        self.store(r.get("alias") or name, mod, act, r)

    def op_from_import_stmt(self, r, act):
        src = r.get("source")
        key = src.split(".")[-1]
        if key not in self.units:
            raise OutOfVocabulary(f"import from unknown unit {src}")
        mod = self.load_module(key)
        name = r.get("name")
        if name not in mod.vars:
            raise GirError(f"{name} not exported by {src}")
        self.store(r.get("alias") or name, mod.vars[name], act, r)

    def op_assert_stmt(self, r, act):
        return None

    def op_del_stmt(self, r, act):
        return None


class Builtin:
    def __init__(self, fn):
        self.fn = fn


class Tainted:
    """A value produced at a configured source (tracked by identity of its origin statements through operators)."""

    def __init__(self, origins):
        self.origins = frozenset(origins)

    def _mix(self, other):
        o = set(self.origins)
        if isinstance(other, Tainted):
            o |= other.origins
        return Tainted(o)

    __add__ = __radd__ = __sub__ = __rsub__ = __mul__ = __rmul__ = __floordiv__ = __mod__ = _mix

    def __neg__(self):
        return Tainted(self.origins)

    def __bool__(self):
        return True

    def __eq__(self, other):
        return self is other

    def __hash__(self):
        return id(self)

    def __lt__(self, other):
        return False

    __le__ = __gt__ = __ge__ = __lt__


def origins_of(v, depth=0):
    """source statements whose value is (or is held by) v"""
    if isinstance(v, Tainted):
        return set(v.origins)
    out = set()
    if depth > 3:
        return out
    if isinstance(v, (list, tuple)):
        for x in v:
            out |= origins_of(x, depth + 1)
    elif isinstance(v, dict):
        for x in v.values():
            out |= origins_of(x, depth + 1)
    elif isinstance(v, Obj):
        for x in v.fields.values():
            out |= origins_of(x, depth + 1)
    return out


def _source(interp, pos, named):
    sid = interp.cur_stmt["stmt_id"] if interp.cur_stmt else -1
    return Tainted([sid])


def _sink(interp, pos, named):
    sid = interp.cur_stmt["stmt_id"] if interp.cur_stmt else -1
    interp.sink_events.append((sid, [sorted(origins_of(a)) for a in pos]))
    return None


def _out(interp, pos, named):
    interp.outs.append(pos[0] if len(pos) == 1 else tuple(pos))
    return None


BUILTINS = {
    "source": Builtin(_source),
    "sink": Builtin(_sink),
    "out": Builtin(_out),
    "range": Builtin(lambda i, p, n: list(range(*p))),
    "len": Builtin(lambda i, p, n: len(p[0])),
}


def unary(o, a):
    if o == "-":
        return -a
    if o == "+":
        return +a
    if o in ("not", "!"):
        return not a
    if o == "~":
        return ~a
    raise OutOfVocabulary(f"unary {o}")


def binary(o, a, b):
    if o == "+":
        return a + b
    if o == "-":
        return a - b
    if o == "*":
        return a * b
    if o == "//":
        return a // b
    if o == "%":
        return a % b
    if o == "<":
        return a < b
    if o == "<=":
        return a <= b
    if o == ">":
        return a > b
    if o == ">=":
        return a >= b
    if o == "==":
        return a == b
    if o == "!=":
        return a != b
    if o in ("and", "&&"):
        return a and b
    if o in ("or", "||"):
        return a or b
    if o == "is":
        return a is b
    if o == "in":
        return a in b
    if o == "&":
        return a & b
    if o == "|":
        return a | b
    if o == "^":
        return a ^ b
    raise OutOfVocabulary(f"binary {o}")
