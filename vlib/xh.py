"""Helpers callable from inside CrossHair harness functions."""
import json
import os

try:
    from crosshair.core import deep_realize
    from crosshair.tracers import NoTracing, is_tracing
except Exception:  # native replay without crosshair installed is still possible
    deep_realize = lambda x: x
    NoTracing = None
    is_tracing = lambda: False

SLICE = {}          # set by the worker before analysis; concrete
_cex_seen = []


def plain(x):
    """Concrete copy of a (possibly symbolic) value made of ints/bools/strs/lists/tuples/dicts/None."""
    if is_tracing():
        x = deep_realize(x)
        with NoTracing():
            return _plain(x)
    return _plain(x)


def _plain(x):
    if x is None or isinstance(x, (bool, str)):
        return x
    if isinstance(x, int):
        return int(x)
    if isinstance(x, float):
        return float(x)
    if isinstance(x, (list, tuple)):
        return [_plain(v) for v in x]
    if isinstance(x, (set, frozenset)):
        return sorted((_plain(v) for v in x), key=repr)
    if isinstance(x, dict):
        return {str(_plain(k)): _plain(v) for k, v in x.items()}
    return repr(x)


def fail(kind, **data):
    """Record a counterexample (realised) and return False so that `post: _` is refuted."""
    rec = {"kind": kind}
    for k, v in data.items():
        rec[k] = plain(v)
    path = os.environ.get("VERIF_CEX_FILE")
    if is_tracing():
        with NoTracing():
            _write(path, rec)
    else:
        _write(path, rec)
    return False


def _write(path, rec):
    _cex_seen.append(rec)
    if path:
        with open(path, "a") as f:
            f.write(json.dumps(rec, default=str) + "\n")
