"""One CrossHair analysis (or one native replay) in its own process.  Prints one JSON line prefixed XRESULT."""
import argparse
import collections
import importlib
import json
import os
import sys
import time
import traceback

from vlib import common


def analyze(args):
    from crosshair.core_and_libs import analyze_function
    from crosshair.options import AnalysisOptionSet
    from crosshair.statespace import MessageType
    from vlib import xh
    import crosshair.core as _cc

    # CrossHair may skip ("short-circuit") calls into functions that carry contracts (its own patched
    # `hash` does) and continue with an uninterpreted result; every such call site doubles the path
    # count.  Always interpreting the body is the precise choice and keeps exhaustion reachable.
    _orig_sc = _cc.consider_shortcircuit

    def _no_shortcircuit(fn, sig, bound, subconditions, allow_interpretation):
        if allow_interpretation:
            return None
        return _orig_sc(fn, sig, bound, subconditions, allow_interpretation)
    _cc.consider_shortcircuit = _no_shortcircuit

    xh.SLICE.clear()
    xh.SLICE.update(json.loads(args.slice))
    mod = importlib.import_module(args.module)       # warm-up runs at import
    if hasattr(mod, "prepare"):
        mod.prepare(xh.SLICE)
    fn = getattr(mod, args.func)
    stats = collections.Counter()
    opts = AnalysisOptionSet(per_condition_timeout=float(args.pct), per_path_timeout=float(args.ppt),
                             report_all=True, max_uninteresting_iterations=0, stats=stats,
                             max_iterations=10 ** 9)
    t0 = time.process_time()
    msgs = []
    checkables = analyze_function(fn, opts)
    for c in checkables:
        msgs.extend(c.analyze())
    cpu = time.process_time() - t0
    kinds = [m.state.name for m in msgs]
    if any(k in ("POST_FAIL", "POST_ERR", "EXEC_ERR") for k in kinds):
        status = "REFUTED"
    elif any(k in ("SYNTAX_ERR", "IMPORT_ERR") for k in kinds):
        status = "HARNESS_ERROR"
    elif any(k == "PRE_UNSAT" for k in kinds):
        status = "PRE_UNSAT"
    elif kinds and all(k == "CONFIRMED" for k in kinds):
        status = "CONFIRMED"
    elif not kinds:
        status = "NO_CONDITIONS"
    else:
        status = "UNKNOWN"
    return {"status": status, "kinds": kinds, "messages": [m.message[:2000] for m in msgs],
            "paths": int(stats.get("num_paths", 0)), "cpu_s": round(cpu, 2), "cex": xh._cex_seen[:5]}


def replay(args):
    from vlib import xh
    xh.SLICE.clear()
    xh.SLICE.update(json.loads(args.slice))
    mod = importlib.import_module(args.module)
    cex = json.loads(args.cex)
    return mod.replay(args.func, cex)


def main():
    ap = argparse.ArgumentParser()
    ap.add_argument("mode", choices=["analyze", "replay"])
    ap.add_argument("--module", required=True)
    ap.add_argument("--func", required=True)
    ap.add_argument("--slice", default="{}")
    ap.add_argument("--pct", default="60")
    ap.add_argument("--ppt", default="10")
    ap.add_argument("--cex", default="null")
    args = ap.parse_args()
    common.setup_lian()
    try:
        out = analyze(args) if args.mode == "analyze" else replay(args)
    except BaseException as e:  # noqa
        out = {"status": "HARNESS_ERROR", "error": f"{type(e).__name__}: {e}", "tb": traceback.format_exc()[-3000:]}
    sys.stdout.flush()
    print("XRESULT " + json.dumps(out, default=str), flush=True)


if __name__ == "__main__":
    main()
