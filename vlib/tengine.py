"""Engine T plumbing: run the real lian pipeline on a generated project, read its tables back."""
import glob
import json
import os
import shutil
import subprocess
import tempfile
import time

from vlib import common

PY = "/venv/bin/python"


class LianRun:
    def __init__(self, root, ws, log, rc, wall):
        self.root, self.ws, self.log, self.rc, self.wall = root, ws, log, rc, wall

    def cleanup(self):
        shutil.rmtree(self.root, ignore_errors=True)

    def __enter__(self):
        return self

    def __exit__(self, *a):
        self.cleanup()

    # ---- tables -------------------------------------------------------------------------------------------
    def _feathers(self, pattern):
        import pandas as pd
        out = []
        for f in sorted(glob.glob(os.path.join(self.ws, pattern))):
            if f.endswith(".indexing"):
                continue
            try:
                out.append(pd.read_feather(f))
            except Exception:
                pass
        return out

    def units(self):
        """{relative source path: unit_id}"""
        import pandas as pd
        p = os.path.join(self.ws, "frontend", "module_symbols")
        if not os.path.exists(p):
            return {}
        m = pd.read_feather(p)
        out = {}
        for _, r in m.iterrows():
            if r.get("symbol_type") == 1 and not r.get("is_extern"):
                path = str(r["unit_path"])
                key = path.split("/src/", 1)[1] if "/src/" in path else path
                out[key] = int(r["unit_id"])
        return out

    def gir(self):
        """{unit_id: [row dicts in stored order]}"""
        out = {}
        for df in self._feathers("frontend/gir.bundle*"):
            recs = df.to_dict(orient="records")
            for r in recs:
                out.setdefault(int(r["unit_id"]), []).append(r)
        return out

    def taint_flows(self):
        p = os.path.join(self.ws, "taint", "taint_data_flow.json")
        if not os.path.exists(p):
            return []
        with open(p) as f:
            return json.load(f)

    def table(self, pattern):
        dfs = self._feathers(pattern)
        rows = []
        for df in dfs:
            rows.extend(df.to_dict(orient="records"))
        return rows


def run_lian(files, cmd="lang", langs="python", extra=None, timeout=900, settings=None, keep_name="in", settings_files=None):
    """files: {relative path: text}.  Returns LianRun (caller cleans up)."""
    root = tempfile.mkdtemp(prefix=f"lian-verif-{os.getpid()}-")
    if settings_files:
        settings = os.path.join(root, "settings")
        os.makedirs(settings)
        for name, text in settings_files.items():
            os.makedirs(os.path.dirname(os.path.join(settings, name)), exist_ok=True)
            with open(os.path.join(settings, name), "w") as f:
                f.write(text)
    src = os.path.join(root, keep_name)
    for rel, text in files.items():
        p = os.path.join(src, rel)
        os.makedirs(os.path.dirname(p), exist_ok=True)
        with open(p, "w") as f:
            f.write(text)
    args = [PY, os.path.join(common.SRC, "lian", "main.py"), cmd, "-f", "-l", langs, "--nomock", keep_name, "-w", "ws"]
    if settings:
        args += ["--default-settings", settings]
    if extra:
        args += list(extra)
    env = dict(os.environ, PYTHONPATH=common.SRC, PYTHONHASHSEED="0", PYTHONDONTWRITEBYTECODE="1")
    env.pop("VERIF_CEX_FILE", None)
    t0 = time.time()
    try:
        p = subprocess.run(args, cwd=root, capture_output=True, text=True, timeout=timeout, env=env)
        log, rc = (p.stdout or "") + (p.stderr or ""), p.returncode
    except subprocess.TimeoutExpired as e:
        log, rc = f"TIMEOUT after {timeout}s", -9
    return LianRun(root, os.path.join(root, "ws", "lian_workspace"), log, rc, time.time() - t0)


def jsonable_rows(rows):
    out = []
    for r in rows:
        d = {}
        for k, v in r.items():
            if v is None:
                continue
            if isinstance(v, float):
                if v != v:
                    continue
                if v == int(v):
                    v = int(v)
            try:
                import numpy as np
                if isinstance(v, np.generic):
                    v = v.item()
                if isinstance(v, np.ndarray):
                    v = v.tolist()
            except Exception:
                pass
            d[k] = v
        out.append(d)
    return out
