"""Replay a C18 configuration on the REAL filesystem inside a scratch directory: python -m vlib.tools.c18_replay <dir> <cfg-json>"""
import hashlib
import json
import os
import signal
import sys

from vlib import common

common.setup_lian()


def tree(root):
    out = {}
    for d, dirs, files in os.walk(root, followlinks=False):
        for nm in dirs + files:
            p = os.path.join(d, nm)
            if os.path.islink(p):
                out[p] = ("l", os.readlink(p))
            elif os.path.isdir(p):
                out[p] = ("d",)
            else:
                with open(p, "rb") as f:
                    out[p] = ("f", hashlib.sha1(f.read()).hexdigest())
        if len(out) > 20000:
            break
    return out


def main():
    scratch, cfg = os.path.realpath(sys.argv[1]), json.loads(sys.argv[2])
    import lian.preparation as prep
    from vlib.harness import h_c18 as h
    base = scratch + cfg.get("base", "/base")

    def w(p, c):
        os.makedirs(os.path.dirname(p), exist_ok=True)
        with open(p, "w") as f:
            f.write(c)
    w(f"{base}/in/a.py", "A")
    w(f"{base}/in/notes.txt", "N")
    if cfg["nested"]:
        w(f"{base}/in/sub/b.py", "B")
    w(f"{base}/other/c.py", "C")
    if cfg["link"]:
        os.symlink(f"{base}/other", f"{base}/in/link")
    w(f"{base}/ws/w.py", "W")
    w(f"{base}/f.py", "F")
    os.makedirs(f"{base}/in/build", exist_ok=True)
    os.symlink(f"{base}/in/build", f"{base}/wsl")
    w(f"{scratch}/outside/o.py", "O")
    os.chdir(base)
    cfg = dict(cfg)
    if cfg["workspace"].startswith("/"):
        cfg["workspace"] = scratch + cfg["workspace"]
    options = h.make_options(cfg)
    h.set_workspace_dir(options)
    ws_real = os.path.realpath(h.expected_workspace(cfg["workspace"]))
    if not h.under(ws_real, scratch):
        print("C18RESULT " + json.dumps({"why": None, "note": "workspace escapes the scratch directory; not replayed"}))
        return
    if cfg["stale"] == 2:
        w(f"{scratch}/outside/keep/k.txt", "K")
        w(f"{scratch}/outside/mirror/m.py", "M")
        w(os.path.join(ws_real, "old.txt"), "OLD")
        os.symlink(f"{scratch}/outside/mirror", os.path.join(ws_real, "src"))
        os.symlink(f"{scratch}/outside/keep", os.path.join(ws_real, "bak"))
    elif cfg["stale"]:
        w(os.path.join(ws_real, "src/old.py"), "OLD")
        w(os.path.join(ws_real, "old.txt"), "OLD")
        os.symlink(f"{scratch}/outside", os.path.join(ws_real, "old_link"))
        os.makedirs(os.path.join(ws_real, "src/deep"), exist_ok=True)
        os.symlink(f"{base}/other", os.path.join(ws_real, "src/deep/lnk"))
    before = tree(scratch)
    why = None
    signal.alarm(20)
    try:
        prep.WorkspaceBuilder(options).run()
    except SystemExit:
        pass
    except OSError as e:
        why = f"copies an unbounded amount of data (real run died with {type(e).__name__} errno {e.errno}: name too long)" \
            if e.errno in (36, 63) or "too long" in str(e).lower() else None
    signal.alarm(0)
    try:
        after = tree(scratch)
    except OSError as e:
        after = dict(before)
        why = f"copies an unbounded amount of data (the tree left behind cannot even be walked: {type(e).__name__} errno {e.errno})"
    n_inputs = len([k for k in before if not h.under(k, ws_real)])
    if why is None:
        for k, v in before.items():
            if h.under(k, ws_real):
                continue
            if after.get(k) != v:
                why = f"input/outside path {k[len(scratch):]} changed"
                break
    if why is None:
        for k in after:
            if k not in before and not h.under(k, ws_real) and not (h.under(ws_real, k) and after[k][0] == "d"):
                why = f"{k[len(scratch):]} created outside the workspace {ws_real[len(scratch):]}"
                break
    if why is None and not cfg["force"]:
        for k in before:
            if h.under(k, ws_real) and k not in after:
                if cfg.get("incremental") and h.under(k, os.path.join(ws_real, "bak")):
                    continue
                why = f"delete of {k[len(scratch):]} without --force"
                break
    created = len([k for k in after if k not in before])
    if why is None and created > 12 * (n_inputs + 12):
        why = f"copies an unbounded amount of data ({created} paths created for {n_inputs} input paths)"
    print("C18RESULT " + json.dumps({"why": why, "created": created}))


if __name__ == "__main__":
    try:
        main()
    except BaseException as e:  # noqa  (alarm -> SIGALRM kills; anything else is reported)
        print("C18RESULT " + json.dumps({"why": None, "error": f"{type(e).__name__}: {str(e)[:200]}"}))
