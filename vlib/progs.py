"""Program families of Engine T (Python renderings).  Every program defines an entry `f(a, b, c)` (ints a, b; bool c) and
reports through `out(...)`.  A program record: dict(name, family, src, bounds) where bounds = {'a': (lo, hi) | None, ...}."""
import itertools
import random

LOOP_BOUNDS = {"a": (0, 3), "b": (0, 2)}


def prog(name, family, body_lines, helpers="", bounds=None, known=None):
    body = "\n".join("    " + l for l in body_lines)
    src = (helpers + "\n" if helpers else "") + "def f(a, b, c):\n" + body + "\n"
    return dict(name=name, family=family, src=src, bounds=bounds or {}, known=known)


# ---- F-expr ---------------------------------------------------------------------------------------------------
BIN = ["+", "-", "*", "<", "<=", ">", ">=", "==", "!="]
EXPRS = []
for op in BIN:
    EXPRS += [f"a {op} b", f"b {op} a", f"a {op} 2", f"2 {op} a"]
EXPRS += ["a // 3", "a % 3", "b // 2 - a % 2", "-a", "-(a - b)", "not c", "not (a < b)", "(a - b) * (b - 2)", "a - (b - 1)",
          "a - b - 1", "(a < b) == c", "a * 2 + b * 3", "a if c else b", "b if a < b else a", "(a if c else b) - 1",
          "a and b", "a or b", "c and a", "c or b", "(a < 1) and (b < 1)", "(a < 1) or c", "a + (b if c else 0)",
          "abs_(a)" if False else "a * a - b"]
AUG = ["+=", "-=", "*=", "//=", "%="]


def family_expr():
    out = []
    for i, e in enumerate(EXPRS):
        out.append(prog(f"expr{i:03d}", "F-expr", [f"x = {e}", "out(x)", "return x"]))
    for i, o in enumerate(AUG):
        rhs = "3" if o in ("//=", "%=") else "b"
        out.append(prog(f"aug{i:02d}", "F-expr", ["x = a", f"x {o} {rhs}", "out(x)", f"x {o} 2", "return x"]))
    return out


# ---- F-ctl: skeleton enumeration ------------------------------------------------------------------------------------
CONDS = ["c", "a < b", "a == 1", "b > 0", "not c", "a > 1"]


class Gen:
    def __init__(self):
        self.k = 0
        self.cond = 0
        self.loopvar = 0

    def atom(self):
        self.k += 1
        return [f"x = x * 3 + {self.k}"]

    def next_cond(self):
        c = CONDS[self.cond % len(CONDS)]
        self.cond += 1
        return c


def render(skel, g, in_loop, depth):
    """skel: nested tuples.  returns list of lines."""
    lines = []
    for s in skel:
        kind = s[0]
        if kind == "A":
            lines += g.atom()
        elif kind == "O":
            lines.append("out(x)")
        elif kind == "R":
            lines.append("return x")
        elif kind == "B":
            lines.append("break")
        elif kind == "C":
            lines.append("continue")
        elif kind == "I":
            lines.append(f"if {g.next_cond()}:")
            lines += ["    " + l for l in render(s[1], g, in_loop, depth + 1)]
        elif kind == "IE":
            lines.append(f"if {g.next_cond()}:")
            lines += ["    " + l for l in render(s[1], g, in_loop, depth + 1)]
            lines.append("else:")
            lines += ["    " + l for l in render(s[2], g, in_loop, depth + 1)]
        elif kind == "IEE":
            lines.append(f"if {g.next_cond()}:")
            lines += ["    " + l for l in render(s[1], g, in_loop, depth + 1)]
            lines.append(f"elif {g.next_cond()}:")
            lines += ["    " + l for l in render(s[2], g, in_loop, depth + 1)]
            lines.append("else:")
            lines += ["    " + l for l in render(s[3], g, in_loop, depth + 1)]
        elif kind == "W":
            g.loopvar += 1
            v = f"i{g.loopvar}"
            lines.append(f"{v} = 0")
            lines.append(f"while {v} < a:")
            lines.append(f"    {v} = {v} + 1")
            lines += ["    " + l for l in render(s[1], g, True, depth + 1)]
        elif kind == "F":
            g.loopvar += 1
            v = f"j{g.loopvar}"
            lines.append(f"for {v} in range(b):")
            lines.append(f"    x = x + {v}")
            lines += ["    " + l for l in render(s[1], g, True, depth + 1)]
        elif kind == "FL":
            g.loopvar += 1
            v = f"e{g.loopvar}"
            lines.append(f"for {v} in [a, b, 7]:")
            lines.append(f"    x = x - {v}")
            lines += ["    " + l for l in render(s[1], g, True, depth + 1)]
    return lines


def skeletons(n, depth, in_loop=False, kinds=None):
    """All statement lists with exactly n statements in total, nesting <= depth."""
    kinds = kinds or ["A", "O", "R", "I", "IE", "W", "F", "B", "C"]
    if n == 0:
        yield ()
        return
    for first in kinds:
        if first in ("A", "O", "R"):
            for rest in skeletons(n - 1, depth, in_loop, kinds):
                if first == "R" and rest:
                    continue                  # nothing after return in the same block (dead code is not interesting)
                yield ((first,),) + rest
        elif first in ("B", "C"):
            if in_loop:
                for rest in skeletons(n - 1, depth, in_loop, kinds):
                    if rest:
                        continue
                    yield ((first,),) + rest
        elif depth > 0:
            if first in ("I", "W", "F", "FL"):
                for nb in range(1, n):
                    for body in skeletons(nb, depth - 1, in_loop or first in ("W", "F", "FL"), kinds):
                        for rest in skeletons(n - 1 - nb, depth, in_loop, kinds):
                            yield ((first, body),) + rest
            elif first == "IE":
                for nb in range(1, n - 1):
                    for ne in range(1, n - nb):
                        for body in skeletons(nb, depth - 1, in_loop, kinds):
                            for eb in skeletons(ne, depth - 1, in_loop, kinds):
                                for rest in skeletons(n - 1 - nb - ne, depth, in_loop, kinds):
                                    yield ((first, body, eb),) + rest


def has(skel, kinds):
    for s in skel:
        if s[0] in kinds:
            return True
        for sub in s[1:]:
            if isinstance(sub, tuple) and has(sub, kinds):
                return True
    return False


def continue_in_while(skel, in_while=False):
    """the known stale-condition defect needs `continue` inside a `while` whose condition is a computed temp."""
    for s in skel:
        if s[0] == "C" and in_while:
            return True
        for sub in s[1:]:
            if isinstance(sub, tuple):
                if continue_in_while(sub, True if s[0] == "W" else (False if s[0] in ("F", "FL") else in_while)):
                    return True
    return False


def family_ctl(max_n=4, depth=2, cap=None, seed=0, kinds=None):
    out = []
    idx = 0
    for n in range(1, max_n + 1):
        for sk in skeletons(n, depth, kinds=kinds):
            idx += 1
            g = Gen()
            lines = ["x = a - b"] + render(sk, g, False, 0) + ["out(x)", "return x * 2 + 1"]
            loops = has(sk, ("W", "F", "FL"))
            bounds = dict(LOOP_BOUNDS) if loops else {}
            out.append(dict(prog(f"ctl{idx:05d}", "F-ctl", lines, bounds=bounds), skel=repr(sk),
                            stale_continue=continue_in_while(sk)))
    if cap is not None and len(out) > cap:
        rnd = random.Random(seed)
        small = [p for p in out if p["src"].count("\n") <= 9]
        rest = [p for p in out if p["src"].count("\n") > 9]
        rnd.shuffle(rest)
        out = (small + rest)[:max(cap, 0)] if len(small) <= cap else rnd.sample(small, cap)
    return out


def family_nested_loops():
    """every placement of break/continue relative to an inner loop inside an outer loop (sizes the skeleton bound does not reach)"""
    out = []
    idx = 0
    for outer in ("W", "F"):
        for inner in ("W", "F"):
            for jump in ("B", "C"):
                for place in ("in_inner", "after_inner", "before_inner", "inner_else_arm", "inner_last"):
                    idx += 1
                    j = (jump,)
                    if place == "in_inner":
                        body = ((inner, (("A",), ("I", (j,)))), ("A",))
                    elif place == "after_inner":
                        body = ((inner, (("A",),)), ("I", (j,)), ("A",))
                    elif place == "before_inner":
                        body = (("I", (j,)), (inner, (("A",),)), ("A",))
                    elif place == "inner_last":
                        body = (("A",), (inner, (("A",), ("I", (j,)))))          # the inner loop ends the outer body
                    else:
                        body = ((inner, (("IE", (("A",),), (j,)),)), ("A",))
                    sk = ((outer, body), ("O",))
                    g = Gen()
                    lines = ["x = a - b"] + render(sk, g, False, 0) + ["out(x)", "return x * 2 + 1"]
                    out.append(dict(prog(f"nest{idx:03d}", "F-ctl", lines, bounds=dict(LOOP_BOUNDS)), skel=repr(sk),
                                    stale_continue=continue_in_while(sk)))
    return out


def family_two_jumps():
    """two break/continue statements in ONE loop, in every order and arrangement (sequential ifs, the two arms of one if, nested)"""
    out = []
    idx = 0
    for loop in ("W", "F"):
        for j1 in ("B", "C"):
            for j2 in ("B", "C"):
                for shape in ("sequential", "arms", "nested"):
                    idx += 1
                    a, b = (j1,), (j2,)
                    if shape == "sequential":
                        body = (("I", (a,)), ("I", (b,)), ("A",))
                    elif shape == "arms":
                        body = (("IE", (a,), (b,)), ("A",))
                    else:
                        body = (("I", (("I", (a,)), b)), ("A",))
                    sk = ((loop, body), ("O",))
                    g = Gen()
                    lines = ["x = a - b"] + render(sk, g, False, 0) + ["out(x)", "return x * 2 + 1"]
                    out.append(dict(prog(f"jump{idx:03d}", "F-ctl", lines, bounds=dict(LOOP_BOUNDS)), skel=repr(sk),
                                    stale_continue=continue_in_while(sk)))
    return out


# ---- F-fun / F-cls / F-data: hand-written small programs ---------------------------------------------------------------
G = "def g(a, k=3):\n    out(a)\n    return a - k\n"


def family_fun():
    P = []

    def add(name, lines, helpers=G, bounds=None):
        P.append(prog(name, "F-fun", lines, helpers=helpers, bounds=bounds))
    add("call_pos1", ["return g(a)"])
    add("call_pos2", ["return g(a, b)"])
    add("call_swap", ["return g(b, a)"])
    add("call_kw", ["return g(a, k=b)"])
    add("call_kw2", ["return g(k=b, a=a)"])
    add("call_default_then_kw", ["x = g(b)", "y = g(a, k=x)", "return x - y"])
    add("call_nested_arg", ["return g(g(a), g(b, 1))"])
    add("call_in_expr", ["x = g(a) * 2 - g(b, a)", "return x"])
    add("call_in_branch", ["if c:", "    x = g(a)", "else:", "    x = g(b, 2)", "return x"])
    add("closure_read", ["def h(y):", "    return y - a", "return h(b) * 2"], helpers="")
    add("closure_counter", ["n = a", "def h():", "    return n + b", "n = n + 1", "return h()"], helpers="")
    add("returned_function", ["def mk(k):", "    def h(y):", "        return y - k", "    return h", "h1 = mk(a)", "return h1(b)"],
        helpers="")
    add("function_passed", ["def ap(fn, v):", "    return fn(v) - 1", "return ap(g, a)"])
    add("recursion", ["return r(a) + b"], helpers="def r(n):\n    if n <= 0:\n        return 0\n    out(n)\n    return n + r(n - 1)\n",
        bounds={"a": (0, 3)})
    add("mutual_recursion", ["return ev(a)"],
        helpers="def ev(n):\n    if n <= 0:\n        return 1\n    return od(n - 1)\n\ndef od(n):\n    if n <= 0:\n        return 0\n    return ev(n - 1)\n",
        bounds={"a": (0, 3)})
    add("global_read", ["return a + Z"], helpers="Z = 5\n")
    add("global_write", ["global Z", "Z = a", "return h0() - b"], helpers="Z = 5\n\ndef h0():\n    return Z * 2\n")
    add("default_uses_global", ["return d0() - d0(a)"], helpers="Q = 4\n\ndef d0(v=Q):\n    return v - 1\n")
    add("early_return_in_callee", ["return e0(a) - e0(b)"],
        helpers="def e0(v):\n    if v < 0:\n        return 0 - v\n    out(v)\n    return v\n")
    add("two_defaults", ["return t0(a) + t0(a, 2) * 3 + t0(a, 2, 3) * 5 + t0(a, z=b) * 7"],
        helpers="def t0(x, y=1, z=10):\n    return x * 100 + y * 10 + z\n")
    return P


def family_cls():
    P = []
    K = ("class K:\n    z = 5\n    def __init__(self, v):\n        self.v = v\n    def get(self, d):\n        return self.v - d\n"
         "    def bump(self):\n        self.v = self.v + 1\n        return self\n")

    def add(name, lines, helpers=K):
        P.append(prog(name, "F-cls", lines, helpers=helpers))
    add("ctor_field", ["o = K(a)", "return o.v - b"])
    add("method_call", ["o = K(a)", "return o.get(b)"])
    add("field_write", ["o = K(a)", "o.v = b", "return o.get(1)"])
    add("field_aug", ["o = K(a)", "o.v += b", "o.v = o.v * 2", "return o.v"])
    add("two_objects", ["o = K(a)", "p = K(b)", "o.v = o.v + 1", "return o.v * 10 - p.v"])
    add("alias_object", ["o = K(a)", "p = o", "p.v = b", "return o.v"])
    add("object_param", ["o = K(a)", "s0(o, b)", "return o.v"], helpers=K + "\ndef s0(q, v):\n    q.v = v - 1\n")
    add("static_field", ["o = K(a)", "return o.z + K.z - a"])
    add("method_chain", ["o = K(a)", "return o.bump().bump().get(b)"])
    add("inherited_method", ["o = L(a)", "return o.get(b) - o.extra()"],
        helpers=K + "\nclass L(K):\n    def extra(self):\n        return self.v * 2\n")
    add("override_method", ["o = M(a)", "return o.get(b)"],
        helpers=K + "\nclass M(K):\n    def get(self, d):\n        return d - self.v\n")
    add("method_in_branch", ["o = K(a)", "if c:", "    o.bump()", "return o.v"])
    return P


def family_data():
    P = []

    def add(name, lines, bounds=None):
        P.append(prog(name, "F-data", lines, bounds=bounds))
    add("list_literal_read", ["l = [a, b, 7]", "return l[0] - l[1] * l[2]"])
    add("list_write", ["l = [a, b, 7]", "l[1] = a - b", "return l[1] - l[0]"])
    add("list_alias", ["l = [a, b]", "m = l", "m[0] = 9", "return l[0] - l[1]"])
    add("list_append_len", ["l = [a]", "l.append(b)", "return len(l) * 10 + l[1]"])
    add("tuple_unpack", ["t = (a, b)", "p, q = t", "return p - q"])
    add("swap", ["a, b = b, a", "return a - b * 2"])
    add("dict_literal", ["d = {'u': a, 'w': b}", "return d['u'] - d['w']"])
    add("dict_write", ["d = {'u': a}", "d['w'] = b", "d['u'] = d['u'] + 1", "return d['u'] * 10 - d['w']"])
    add("nested_list", ["l = [[a, b], [b, a]]", "return l[0][1] - l[1][1] * 2"])
    add("list_of_computed", ["l = [a - b, a * b]", "out(l[0])", "return l[1]"])
    add("index_var", ["l = [10, 20, 30]", "i = a", "return l[i] - b"], bounds={"a": (0, 2)})
    add("slice", ["l = [a, b, 7, 9]", "m = l[1:3]", "return m[0] * 10 + m[1]"])
    add("aug_element", ["l = [a, b]", "l[0] += 5", "l[1] -= l[0]", "return l[1]"])
    add("string_concat_eq", ["s = 'x' + 'y'", "if s == 'xy':", "    return a", "return b"])
    add("sum_loop_list", ["s = 0", "for e in [a, b, 3]:", "    s = s * 2 + e", "return s"])
    add("for_else", ["s = 0", "for j in range(b):", "    if j == a:", "        break", "    s = s + 1", "else:", "    s = s + 10",
                     "return s"], bounds=dict(LOOP_BOUNDS))
    add("while_else", ["i = 0", "while i < a:", "    i = i + 1", "    if i == b:", "        break", "else:", "    i = i + 10", "return i"],
        bounds=dict(LOOP_BOUNDS))
    return P


def family_elif():
    P = []

    def add(name, lines):
        P.append(prog(name, "F-ctl", lines))
    add("elif_else", ["x = 0", "if a < b:", "    out(1)", "    x = 1", "elif a < 5:", "    out(2)", "    x = 2", "else:", "    out(3)", "    x = 3",
                      "return x * 10 + a"])
    add("elif_no_else", ["x = 0", "if a < b:", "    x = 1", "elif c:", "    x = 2", "out(x)", "return x - b"])
    add("elif_elif_else", ["if a == 0:", "    x = 10", "elif a == 1:", "    x = 20", "elif b > a:", "    x = 30", "else:", "    x = 40",
                           "out(x)", "return x + b"])
    add("elif_nested", ["x = a", "if c:", "    if a < b:", "        x = 1", "    elif a == b:", "        x = 2", "    else:", "        x = 3",
                        "elif b < 0:", "    x = 4", "else:", "    x = 5", "    out(x)", "return x"])
    add("elif_return_arms", ["if a < b:", "    return 1", "elif a == b:", "    return 2", "else:", "    out(a)", "return 3"])
    add("elif_in_loop", ["s = 0", "for j in range(b):", "    if j == a:", "        s = s + 1", "    elif c:", "        s = s + 10", "    else:",
                         "        s = s + 100", "return s"])
    P[-1]["bounds"] = dict(LOOP_BOUNDS)
    return P


# ---- witnesses of known lowering defects (one program each; fingerprints in known_findings.json) ----------------------
KR = "class K:\n    def __init__(self, v):\n        self.v = v\n"


def family_round2():
    """shapes a seeding agent reported as fragile in the Python frontend (all hold on the repaired tree)"""
    P = []

    def add(name, lines, helpers="", bounds=None):
        P.append(prog(name, "F-round2", lines, helpers=helpers, bounds=bounds))
    add("slice_expr_bounds", ["l = [1, 2, 3, 4, 5]", "m = l[1:a + 1]", "return len(m) * 10 + m[0]"], bounds={"a": (1, 3)})
    add("slice_negative_start", ["l = [1, 2, 3, 4, 5]", "m = l[-2:]", "return m[0] + a"])
    add("slice_both_bounds_computed", ["l = [5, 6, 7, 8, 9]", "m = l[a - 1:a + 1]", "return m[0] * 10 + m[1]"], bounds={"a": (1, 3)})
    add("swap_names_by_unpacking", ["x = a", "y = b", "x, y = y, x", "return x * 10 + y"])
    add("unpack_fib_step", ["x = 0", "y = 1", "i = 0", "while i < a:", "    x, y = y, x + y", "    i = i + 1", "return x"], bounds=dict(LOOP_BOUNDS))
    add("unpack_three_rotating", ["x = a", "y = b", "z = 7", "x, y, z = z, x, y", "return x * 100 + y * 10 + z"])
    add("nonlocal_two_names", ["p = 1", "q = 2", "def inner():", "    nonlocal p, q", "    p = p + a", "    q = q + a", "inner()", "return p * 10 - q"])
    add("global_two_names", ["bump(a)", "return GA * 10 - GB"], helpers="GA = 1\nGB = 2\n\ndef bump(v):\n    global GA, GB\n    GA = GA + v\n    GB = GB + v\n")
    add("self_in_positional_args", ["o = KH(a)", "return o.m(b)"],
        helpers="def gp(o, k):\n    return o.v - k\n\nclass KH:\n    def __init__(self, v):\n        self.v = v\n    def m(self, d):\n        return gp(self, d)\n")
    add("self_returned_and_stored", ["o = KI(a)", "p = o.me()", "return p.v + b"],
        helpers="class KI:\n    def __init__(self, v):\n        self.v = v\n    def me(self):\n        x = self\n        return x\n")
    add("default_bound_at_definition", ["k = a", "def addd(x, y=k):", "    return x - y", "k = k * 10", "return addd(1)"])
    add("default_computed_at_definition", ["k = a", "def addd(x, y=k + 1):", "    return x - y", "k = k * 10", "return addd(1) + addd(1, 2)"])
    add("neg_of_parenthesised_sub", ["return -(a - b)"])
    add("neg_of_call", ["return -g(a)"], helpers=G)
    add("and_not_comparison", ["x = 0", "if c and not (a < b):", "    x = 1", "return x"])
    add("not_of_comparison_assigned", ["t = not (a < b)", "u = not c", "if t:", "    return 1", "if u:", "    return 2", "return 3"])
    add("inner_local_shadows_outer_assigned", ["x = a", "def g9():", "    x = 100", "    return x", "y = g9()", "return x + y"])
    add("module_function_local_named_like_global", ["return x0 + gz(a)"], helpers="x0 = 5\n\ndef gz(v):\n    x0 = v * 2\n    return x0\n")
    add("aug_assign_element", ["l = [a, b]", "l[0] -= 3", "l[1] *= 2", "return l[0] * 10 + l[1]"])
    add("aug_assign_field", ["o = K(a)", "o.v -= b", "o.v *= 2", "return o.v"], helpers=KR)
    add("nested_subscript_write", ["m = [[1, 2], [3, 4]]", "m[1][0] = a", "return m[1][0] * 10 + m[0][1]"])
    add("sub_with_call_operand_right", ["return a - g(b)"], helpers=G)
    add("sub_with_subscript_operand_left", ["l = [a, b]", "return l[0] - l[1]"])
    add("keyword_after_default", ["return kd(a, z=b)"], helpers="def kd(x, y=5, z=1):\n    return x * 100 + y * 10 + z\n")
    add("while_else_with_flag", ["i = 0", "s = 0", "while i < a:", "    i = i + 1", "    if i == b:", "        break", "else:", "    s = 9", "return s * 10 + i"], bounds=dict(LOOP_BOUNDS))
    add("floor_div_mod_negative", ["return (0 - a) // 3 * 10 + (0 - a) % 3"], bounds={"a": (0, 7)})
    add("negative_index", ["l = [a, b, 7]", "return l[-1] + l[-3]"])
    return P


def witnesses_round2():
    W = []

    def w(name, lines, known, helpers=""):
        W.append(prog(name, "witness", lines, helpers=helpers, known=known))
    w("w_unpack_into_elements", ["l = [a, b]", "l[0], l[1] = l[1], l[0]", "return l[0] * 10 + l[1]"], "unpack-into-elements")
    w("w_unpack_into_fields", ["o = K(a)", "p = K(b)", "o.v, p.v = p.v, o.v", "return o.v * 10 + p.v"], "unpack-into-fields", helpers=KR)
    w("w_class_attr_computed", ["return KC.b + a"], "class-attribute-value", helpers="class KC:\n    a0 = 2\n    b = a0 * 3\n")
    w("w_class_attr_negative_literal", ["return KD.neg + a"], "class-attribute-value", helpers="class KD:\n    neg = -1\n")
    w("w_class_attr_list", ["return KE.items[1] + a"], "class-attribute-value", helpers="class KE:\n    items = [1, 2]\n")
    w("w_self_in_nested_function", ["o = KF(a)", "return o.m(b)"], "self-not-unified",
      helpers="class KF:\n    def __init__(self, v):\n        self.v = v\n    def m(self, d):\n        def h(z):\n            return self.v - z\n        return h(d)\n")
    w("w_self_as_keyword_argument", ["o = KG(a)", "return o.m(b)"], "self-not-unified",
      helpers="def gk(k, o):\n    return o.v - k\n\nclass KG:\n    def __init__(self, v):\n        self.v = v\n    def m(self, d):\n        return gk(d, o=self)\n")
    return W


def witnesses():
    W = []
    W.append(prog("w_continue_stale_condition", "witness",
                  ["i = 0", "s = 0", "while i < a:", "    i = i + 1", "    if c:", "        continue", "    s = s + 1", "return s * 10 + i"],
                  bounds={"a": (0, 3)}, known="continue-in-while-stale-condition"))
    W.append(prog("w_and_short_circuit", "witness", ["x = a and g(b)", "return x"], helpers=G, known="boolean-operator-eager-operands"))
    W.append(prog("w_chained_comparison", "witness", ["x = a < b < 2", "return x"], known="chained-comparison"))
    return W + witnesses_round2()


def quick_family(seed=0):
    progs = family_expr() + family_fun() + family_cls() + family_data() + family_elif() + family_round2()
    ctl = family_ctl(max_n=3, depth=2, seed=seed) + family_nested_loops() + family_two_jumps()
    return progs, ctl


def thorough_family(seed=0):
    progs = family_expr() + family_fun() + family_cls() + family_data() + family_elif() + family_round2()
    ctl = family_ctl(max_n=4, depth=2, seed=seed) + family_nested_loops() + family_two_jumps()
    return progs, ctl


# ---- F-val: programs for the abstract-value properties (C08/C09); entry is called with unknown inputs ----------------------
KV = "class K:\n    def __init__(self, v):\n        self.v = v\n"
HV = "def h(p):\n    return p + 1\n"
TAIL = "\nf(inp(0), inp(1), inp(2))\n"


def family_val():
    P = []

    def add(name, lines, helpers="", exact=True):
        p = prog(name, "F-val", lines, helpers=helpers)
        p["src"] += TAIL
        p["exact"] = exact
        P.append(p)
    add("const_chain", ["x = 5", "y = x + 2", "z = y * 3", "return z"])
    add("overwrite_seq", ["x = 1", "x = 2", "y = x", "return y"])
    add("branch_overwrite", ["x = 5", "if c:", "    x = 7", "z = x", "return z"])
    add("both_arms", ["if c:", "    x = 1", "else:", "    x = 2", "y = x + 10", "return y"])
    add("binop_sets", ["if c:", "    x = 1", "else:", "    x = 2", "if a < b:", "    y = 10", "else:", "    y = 20", "z = x + y", "return z"])
    add("arm_then_overwrite", ["if c:", "    x = 1", "else:", "    x = 2", "x = 3", "y = x", "return y"])
    add("nested_arms", ["x = 0", "if c:", "    if a < b:", "        x = 1", "    else:", "        x = 2", "y = x", "return y"])
    add("early_return", ["x = 1", "if c:", "    return x", "x = 2", "y = x", "return y"])
    add("string_concat", ["s = 'ab'", "t = s + 'c'", "return t"])
    add("compare_consts", ["x = 3", "y = x < 5", "z = x == 4", "return y"])
    add("unknown_arith", ["x = a + 1", "y = x * 2", "return y"], exact=False)
    add("unknown_or_const", ["if c:", "    x = a", "else:", "    x = 3", "y = x", "return y"], exact=False)
    add("field_rw", ["o = K(3)", "o.w = 4", "t = o.v", "u = o.w", "o.v = 9", "t2 = o.v", "return t2"], helpers=KV)
    add("two_objects", ["o = K(1)", "p = K(2)", "o.v = 5", "q = p.v", "r = o.v", "return q"], helpers=KV)
    add("alias_object", ["o = K(1)", "p = o", "p.v = 5", "q = o.v", "return q"], helpers=KV)
    add("field_in_branch", ["o = K(1)", "if c:", "    o.v = 2", "q = o.v", "return q"], helpers=KV)
    add("other_field_untouched", ["o = K(1)", "o.w = 7", "o.v = 2", "q = o.w", "return q"], helpers=KV)
    add("call_sites", ["r1 = h(10)", "r2 = h(20)", "return r1"], helpers=HV)
    add("call_sites_in_arms", ["if c:", "    r = h(1)", "else:", "    r = h(5)", "s = r", "return s"], helpers=HV)
    add("call_sites_through_wrapper", ["r1 = gw(11)", "r2 = gw(12)", "return r2"], helpers=HV + "\ndef gw(v):\n    w = h(v)\n    return w\n")
    add("call_sites_wrapper_and_direct", ["r1 = gw(1)", "r2 = h(5)", "r3 = gw(9)", "return r3"], helpers=HV + "\ndef gw(v):\n    w = h(v)\n    return w\n")
    add("call_sites_three", ["r1 = h(1)", "r2 = h(2)", "r3 = h(3)", "s = r2", "return s"], helpers=HV)
    add("call_site_arg_from_branch", ["if c:", "    x = 1", "else:", "    x = 2", "r1 = h(x)", "r2 = h(7)", "return r2"], helpers=HV)
    add("callee_two_returns", ["r = h2(c)", "return r"], helpers="def h2(p):\n    if p:\n        return 1\n    return 2\n")
    add("param_alias_write", ["o = K(1)", "s0(o)", "t = o.v", "return t"], helpers=KV + "\ndef s0(q):\n    q.v = 8\n")
    add("callee_reads_field", ["o = K(4)", "t = g0(o)", "return t"], helpers=KV + "\ndef g0(q):\n    return q.v\n")
    add("helper_writes_field_of_argument", ["o = K(0)", "seta(o, 1)", "t = o.v", "return t"], helpers=KV + "\ndef seta(q, x):\n    q.v = x\n", exact=False)
    add("list_elements", ["l = [1, 2]", "x = l[0]", "l[1] = 5", "y = l[1]", "return y"], exact=False)
    add("dict_elements", ["d = {'k': 1}", "d['j'] = 2", "x = d['k']", "return x"], exact=False)
    add("copy_chain", ["x = 4", "y = x", "z = y", "x = 6", "w = z", "return w"])
    # round 2
    add("fold_result_zero", ["u = 1", "if c:", "    u = 2", "v = u - 1", "return v"], exact=False)
    add("unknown_operand_in_one_arm", ["x = 1", "if c:", "    x = a", "z = x + 2", "return z"], exact=False)
    add("sub_of_joined_constants", ["u = 5", "if c:", "    u = 7", "v = u - 2", "return v"])
    # v and w are correlated through u: a non-relational analysis holds all four sums (not what C09 asks about): covering only
    add("mul_of_joined_constants", ["u = 2", "if c:", "    u = 3", "v = u * 4", "w = 10 - u", "return v + w"], exact=False)
    add("default_parameter_used", ["t = dflt(1)", "return t"], helpers="def dflt(p, q=7):\n    return p + q\n")
    add("alias_then_overwrite_field", ["o = K(1)", "p = o", "o.v = 2", "r = p.v", "return r"], helpers=KV)
    add("field_in_one_arm", ["o = K(1)", "if c:", "    o.v = 2", "r = o.v", "return r"], helpers=KV)
    add("three_sites_same_helper", ["k1 = h(100)", "k0 = h2(300)", "k2 = h(200)", "return k2"], helpers=HV + "\ndef h2(p):\n    return p + 2\n")
    return P


def val_witnesses_round2():
    """clean-tree violations reported by a seeding agent and confirmed by the checks (C08 unless noted)"""
    W = []

    def w(name, lines, known, helpers="", exact=True):
        p = prog(name, "witness", lines, helpers=helpers, known=known)
        p["src"] += TAIL
        p["exact"] = exact
        W.append(p)
    w("w_string_times_int", ["s = 'ab' * 3", "return s"], "string-int-folding")
    w("w_helper_field_write_is_weak", ["o = K(1)", "setf(o, 33)", "r = o.v", "return r"], "C09: helper-field-write-weak", helpers=KV + "\ndef setf(q, x):\n    q.v = x\n")
    w("w_default_leaks_into_explicit_argument", ["t = dflt(1, 2)", "return t"], "C09: default-leaks", helpers="def dflt(p, q=7):\n    return p + q\n")
    return W


def val_witnesses():
    W = []

    def addw(name, lines, known, helpers=""):
        p = prog(name, "witness", lines, helpers=helpers, known=known)
        p["src"] += TAIL
        p["exact"] = False
        W.append(p)
    addw("w_may_alias_strong_update", ["o = K(0)", "q = K(1)", "if c:", "    u = o", "else:", "    u = q", "u.v = 7", "t = o.v", "return t"],
         "field write through a variable that may refer to two objects updates both strongly", helpers=KV)

    def add(name, lines, known, helpers=""):
        p = prog(name, "witness", lines, helpers=helpers, known=known)
        p["src"] += TAIL
        p["exact"] = False
        W.append(p)
    add("w_quote_mix_concat", ["s = " + repr('a" + "b') + " + 'c'", "return s"], "string constant content re-interpreted when folded")
    add("w_digit_strings", ["s = '1' + '2'", "return s"], "digit strings folded as integers")
    return W


def family_val_ctl(max_n=3):
    """loop-free control skeletons over a constant-valued variable: every path gives x a different constant."""
    out = []
    idx = 0
    for n in range(1, max_n + 1):
        for sk in skeletons(n, 2, kinds=["A", "O", "R", "I", "IE"]):
            if not has(sk, ("I", "IE")):
                continue
            idx += 1
            g = Gen()
            lines = ["x = 2"] + render(sk, g, False, 0) + ["y = x", "return y"]
            p = prog(f"valctl{idx:04d}", "F-val", lines)
            p["src"] += TAIL
            p["exact"] = True
            out.append(p)
    return out


# ---- F-scope (C05) ----------------------------------------------------------------------------------------------------------
def family_scope():
    P = []

    def add(name, src, known=None):
        P.append(dict(name=name, family="F-scope", src=src + TAIL, bounds={}, known=known))
    add("param_shadows_global", "Z = 5\n\ndef f(a, b, c):\n    return g1(a) + Z\n\ndef g1(Z):\n    return Z + 1\n")
    add("local_shadows_global", "Z = 5\n\ndef f(a, b, c):\n    Z = a\n    return Z + h1()\n\ndef h1():\n    return Z\n")
    add("closure_reads_enclosing", "def f(a, b, c):\n    m = a + 1\n    def inner(y):\n        return y + m\n    return inner(b)\n")
    add("inner_shadows_enclosing", "def f(a, b, c):\n    m = a\n    def inner(m):\n        return m + 1\n    return inner(b) + m\n")
    add("inner_local_shadows", "def f(a, b, c):\n    m = a\n    def inner(y):\n        m = y * 2\n        return m\n    return inner(b) + m\n")
    add("global_stmt_write", "Z = 1\n\ndef f(a, b, c):\n    setz(a)\n    return Z\n\ndef setz(v):\n    global Z\n    Z = v\n")
    add("nonlocal_write", "def f(a, b, c):\n    n = a\n    def bump():\n        nonlocal n\n        n = n + 1\n    bump()\n    return n\n")
    add("two_level_closure", "def f(a, b, c):\n    x = a\n    def l1():\n        y = b\n        def l2():\n            return x + y\n        return l2()\n    return l1()\n")
    add("sibling_functions_same_local", "def f(a, b, c):\n    return p1(a) + p2(b)\n\ndef p1(v):\n    t = v + 1\n    return t\n\ndef p2(v):\n    t = v + 2\n    return t\n")
    add("branch_local", "Z = 3\n\ndef f(a, b, c):\n    if c:\n        t = a\n    else:\n        t = Z\n    return t\n")
    add("global_used_in_branch_only", "Z = 3\n\ndef f(a, b, c):\n    if c:\n        return Z + a\n    return b\n")
    add("function_name_global", "def helper(v):\n    return v + 1\n\ndef f(a, b, c):\n    k = helper\n    return k(a)\n")
    add("method_param_shadows_global", "W = 1\n\nclass C:\n    def meth(self, W):\n        return W + 1\n\ndef f(a, b, c):\n    o = C()\n    return o.meth(a) + W\n")
    add("method_reads_global", "Q = 4\n\nclass C:\n    def meth(self, d):\n        return Q + d\n\ndef f(a, b, c):\n    o = C()\n    return o.meth(a)\n")
    add("closure_in_branch", "def f(a, b, c):\n    m = a\n    if c:\n        def inner():\n            return m + 1\n        return inner()\n    return m\n")
    add("closure_in_method_vs_global", "g = 1\n\nclass K:\n    def m(self, a):\n        g = a + 1\n        def inner():\n            return g\n        return inner()\n\n"
        "def f(a, b, c):\n    o = K()\n    return o.m(a) + g\n")
    add("param_named_like_later_function", "def scale(v, helper):\n    total = v * 2\n    return helper(total)\n\ndef helper(x):\n    return x + 1\n\n"
        "def total():\n    return 0\n\ndef f(a, b, c):\n    return scale(a, helper) + total()\n")
    add("local_named_like_earlier_function", "def util(x):\n    return x + 1\n\ndef f(a, b, c):\n    r = util(a)\n    util2 = b\n    return w1(r) + util2\n\n"
        "def w1(util):\n    return util * 2\n")
    add("local_named_like_class", "class Box:\n    def __init__(self):\n        self.v = 1\n\ndef f(a, b, c):\n    o = Box()\n    return w2(a) + o.v\n\n"
        "def w2(Box):\n    return Box + 1\n")
    add("global_named_like_later_param", "limit = 10\n\ndef f(a, b, c):\n    return clamp(a, 3) + limit\n\ndef clamp(v, limit):\n    if v > limit:\n        return limit\n    return v\n")
    add("method_local_vs_global_and_closure", "n = 7\n\nclass K:\n    def m(self, a):\n        n = a\n        def i1():\n            def i2():\n                return n + 1\n            return i2()\n        return i1()\n\n"
        "def f(a, b, c):\n    return K().m(a) + n\n")
    add("nested_same_name_params", "def f(a, b, c):\n    def q(a):\n        def r(a):\n            return a + 1\n        return r(a + 10)\n    return q(b) + a\n")
    return P


def family_scope_imports():
    """names imported from another analysed file (each program is a directory: main.py + modules)"""
    H = "LIMIT = 10\n\ndef g2(v):\n    return v + LIMIT\n\ndef g3(v):\n    return v * 3\n\nclass K2:\n    def __init__(self, v):\n        self.v = v\n"
    P = []

    def add(name, head, body, modules=None):
        P.append(dict(name=name, family="F-scope-import", src=head + "\n\n" + body + TAIL, bounds={}, known=None, modules=modules or {"helper": H}))
    add("imp_function", "from helper import g2", "def f(a, b, c):\n    return g2(a)\n")
    add("imp_variable", "from helper import LIMIT", "def f(a, b, c):\n    if c:\n        return a + LIMIT\n    return b\n")
    add("imp_alias", "from helper import g2 as hh", "def f(a, b, c):\n    return hh(a)\n")
    add("imp_class", "from helper import K2", "def f(a, b, c):\n    o = K2(a)\n    return o.v\n")
    add("imp_shadowed_by_local", "from helper import g2", "def f(a, b, c):\n    g2 = a\n    return g2 + 1\n")
    add("imp_shadowed_by_parameter", "from helper import LIMIT", "def f(a, b, c):\n    return w3(a) + LIMIT\n\ndef w3(LIMIT):\n    return LIMIT + 1\n")
    add("imp_next_to_same_named_neighbour", "from helper import g2", "def g3(v):\n    return v - 3\n\ndef f(a, b, c):\n    return g2(a) + g3(b)\n")
    add("imp_reexported", "from middle import g2", "def f(a, b, c):\n    return g2(a)\n", {"middle": "from helper import g2\n", "helper": H})
    add("imp_two_modules_same_name", "from helper import g2\nfrom other import g3", "def f(a, b, c):\n    return g2(a) + g3(b)\n",
        {"helper": H, "other": "def g3(v):\n    return v + 33\n"})
    return P


def scope_witnesses():
    W = []
    W.append(dict(name="w_class_field_captures_global", family="witness", bounds={},
                  src="Z = 5\n\nclass C:\n    Z = 9\n    def meth(self, d):\n        return Z + d\n\ndef f(a, b, c):\n    o = C()\n    return o.meth(a)\n" + TAIL,
                  known="bare name in a method binds to the class field instead of the module global"))
    return W


def family_scope_generated():
    """a name assigned in every non-empty subset of {module, f, inner, inner2}; read at every level where it is visible"""
    out = []
    levels = ["M", "f", "i1", "i2"]
    for mask in range(1, 16):
        S = {levels[k] for k in range(4) if mask >> k & 1}
        vis_f = "f" in S or "M" in S
        vis_1 = "i1" in S or vis_f
        vis_2 = "i2" in S or vis_1
        L = []
        if "M" in S:
            L.append("v = 1")
        L.append("def f(a, b, c):")
        if "f" in S:
            L.append("    v = a + 2")
        L.append("    def i1():")
        if "i1" in S:
            L.append("        v = a + 3")
        L.append("        def i2():")
        if "i2" in S:
            L.append("            v = a + 4")
        L.append("            return v" if vis_2 else "            return 0")
        L.append("        r2 = i2()")
        L.append("        return v * 10 + r2" if vis_1 else "        return r2")
        L.append("    r1 = i1()")
        L.append("    return v * 100 + r1" if vis_f else "    return r1")
        out.append(dict(name=f"scopegen{mask:02d}", family="F-scope", src="\n".join(L) + "\n" + TAIL, bounds={}, known=None))
    return out


def family_calls_generated(limit=72):
    """f performs three call statements; each picks a callee among three helpers (one of which calls another helper behind its own
    guard) and is guarded by nothing / c / a < b."""
    helpers = ("def g0(x):\n    return x + 1\n\ndef g1(x):\n    if x > 5:\n        return g2(x - 1)\n    return x + 2\n\n"
               "def g2(x):\n    return x * 2\n")
    guards = [None, "c", "a < b"]
    out = []
    idx = 0
    import itertools
    for callees in itertools.product(range(3), repeat=3):
        for gs in itertools.product(range(3), repeat=3):
            idx += 1
            if (idx * 7) % 10 >= 1 and limit < 729:       # deterministic thinning to about a tenth
                continue
            L = ["s = 0"]
            for k in range(3):
                call = f"s = s + g{callees[k]}(a + {k})"
                if guards[gs[k]] is None:
                    L.append(call)
                else:
                    L.append(f"if {guards[gs[k]]}:")
                    L.append("    " + call)
            L.append("return s")
            out.append(prog(f"callgen{idx:03d}", "F-call", L, helpers=helpers))
    return out[:limit]


# ---- F-taint (C10/C11 program-level legs) ----------------------------------------------------------------------------------
TAINT_SETTINGS = {
    "entry.yaml": '- method_list: ["%unit_init"]\n',
    "source.yaml": '- lang: python\n  rules:\n    - operation: call_stmt\n      name: source\n      tag: ["%target"]\n',
    "sink.yaml": '- lang: python\n  rules:\n    - operation: call_stmt\n      name: sink\n      target: [\\%arg0]\n      vuln_type: generic_sink\n',
    "propagation.yaml": '- lang: python\n  rules:\n  - operation: assign_stmt\n    src: operand1\n    dst:\n      - [\\%target]\n',
    "source_from_code.yaml": "[]\n", "sink_from_code.yaml": "[]\n", "icall.yaml": "[]\n",
}


def family_taint():
    """(flowing programs, non-flowing programs); sinks are guarded by unknown inputs"""
    F, N = [], []
    KO = "class Box:\n    def __init__(self, v):\n        self.v = v\n"

    def add(lst, name, lines, helpers=""):
        p = prog(name, "F-taint", lines, helpers=helpers)
        p["src"] += TAIL
        lst.append(p)
    add(F, "t_direct", ["t = source()", "sink(t)", "return 0"])
    add(F, "t_copy", ["t = source()", "u = t", "sink(u)", "return 0"])
    add(F, "t_copy_chain_guarded", ["t = source()", "u = t", "w = u", "if c:", "    sink(w)", "return 0"])
    add(F, "t_binop", ["t = source()", "u = t + 1", "sink(u)", "return 0"])
    add(F, "t_branch_assign", ["u = 0", "if c:", "    u = source()", "sink(u)", "return 0"])
    add(F, "t_param", ["t = source()", "pass_to(t)", "return 0"], helpers="def pass_to(p):\n    sink(p)\n")
    add(F, "t_return", ["u = get()", "sink(u)", "return 0"], helpers="def get():\n    return source()\n")
    add(F, "t_through_identity", ["t = source()", "u = ident(t)", "sink(u)", "return 0"], helpers="def ident(p):\n    return p\n")
    add(F, "t_field", ["o = Box(0)", "o.v = source()", "u = o.v", "sink(u)", "return 0"], helpers=KO)
    add(F, "t_ctor_field", ["t = source()", "o = Box(t)", "sink(o.v)", "return 0"], helpers=KO)
    add(F, "t_list_element", ["t = source()", "l = [1, t]", "u = l[1]", "sink(u)", "return 0"])
    add(F, "t_two_sinks", ["t = source()", "if c:", "    sink(t)", "else:", "    u = t", "    sink(u)", "return 0"])
    add(F, "t_two_sources", ["t = source()", "u = source()", "if c:", "    sink(t)", "sink(u)", "return 0"])
    # round 2
    add(F, "t_sink_twice_same_function", ["t = source()", "sink(t)", "u = t", "sink(u)", "return 0"])
    add(F, "t_global_set_in_callee_then_copied", ["set_g()", "u = G", "sink(u)", "return 0"], helpers="G = 0\ndef set_g():\n    global G\n    G = source()\n")
    add(F, "t_nonlocal_assignment", ["n = 0", "def setn():", "    nonlocal n", "    n = source()", "setn()", "sink(n)", "return 0"])
    add(F, "t_closure_returns_captured", ["t = source()", "def getit():", "    return t", "u = getit()", "sink(u)", "return 0"])
    add(F, "t_nested_field_written_in_callee", ["o = Box(Box(0))", "put(o, source())", "w = o.v", "sink(w.v)", "return 0"], helpers=KO + "def put(q, x):\n    q.v.v = x\n")
    add(F, "t_helper_with_sink_through_wrapper_three_calls", ["t = source()", "wr(1)", "wr(2)", "wr(t)", "return 0"], helpers="def snk(p):\n    sink(p)\n\ndef wr(q):\n    snk(q)\n")
    add(F, "t_two_returns_in_helper", ["u = pick(c)", "sink(u)", "return 0"], helpers="def pick(flag):\n    if flag:\n        return source()\n    return 0\n")
    add(F, "t_keyword_arguments_unsorted", ["t = source()", "kw(x=t, a=1)", "return 0"], helpers="def kw(a, x):\n    sink(x)\n")
    add(F, "t_reassigned_same_name", ["t = source()", "t = t + 1", "u = t", "sink(u)", "return 0"])
    add(F, "t_argument_tainted_in_then_arm", ["t = source()", "if c:", "    x = t", "else:", "    x = 0", "pass_to(x)", "return 0"], helpers="def pass_to(p):\n    sink(p)\n")
    add(F, "t_argument_tainted_in_else_arm", ["t = source()", "if c:", "    x = 0", "else:", "    x = t", "pass_to(x)", "return 0"], helpers="def pass_to(p):\n    sink(p)\n")
    add(F, "t_argument_tainted_then_overwritten_in_arm", ["t = source()", "x = t", "if c:", "    x = 0", "pass_to(x)", "return 0"], helpers="def pass_to(p):\n    sink(p)\n")
    add(F, "t_second_argument_with_two_definitions", ["t = source()", "x = 0", "if c:", "    x = t", "pass2(1, x)", "return 0"], helpers="def pass2(k, p):\n    sink(p)\n")
    add(F, "t_argument_with_two_definitions", ["t = 0", "if c:", "    t = source()", "pass_to(t)", "return 0"], helpers="def pass_to(p):\n    sink(p)\n")
    add(N, "n_other_variable", ["t = source()", "v = 5", "sink(v)", "return 0"])
    add(N, "n_wrong_position", ["t = source()", "sink(1, t)", "return 0"])
    add(N, "n_overwritten_before_sink", ["t = source()", "t = 3", "sink(t)", "return 0"])
    add(N, "n_other_field", ["o = Box(0)", "o.w = source()", "u = o.v", "sink(u)", "return 0"], helpers=KO)
    add(N, "n_other_object", ["o = Box(0)", "p = Box(1)", "o.v = source()", "sink(p.v)", "return 0"], helpers=KO)
    add(N, "n_no_source", ["t = 4", "sink(t)", "return 0"])
    add(N, "n_no_sink", ["t = source()", "out(t)", "return 0"])
    return F, N


# ---- C11: rule sets and extra programs -----------------------------------------------------------------------------------------
def taint_rules_yaml(rules, kind):
    """rules: dicts(kind, name, lang, target, unit_name, line_num) -> yaml text of source.yaml / sink.yaml"""
    groups = {}
    for r in rules:
        if r["kind"] == kind:
            groups.setdefault(r.get("lang", "python"), []).append(r)
    if not groups:
        return "[]\n"
    out = []
    for lang, rs in groups.items():
        out.append(f'- lang: "{lang}"\n  rules:\n')
        for r in rs:
            out.append(f"    - operation: call_stmt\n      name: {r['name']}\n")
            if kind == "source":
                out.append('      tag: ["%target"]\n')
            else:
                out.append(f"      target: [\\%arg{r.get('arg', 0)}]\n      vuln_type: generic_sink\n")
            if r.get("unit_name"):
                out.append(f"      unit_name: {r['unit_name']}\n")
            if r.get("line_num"):
                out.append(f"      line_num: {r['line_num']}\n")
    return "".join(out)


def taint_settings(rules):
    s = dict(TAINT_SETTINGS)
    s["source.yaml"] = taint_rules_yaml(rules, "source")
    s["sink.yaml"] = taint_rules_yaml(rules, "sink")
    return s


def SRC(name="source", **kw):
    return dict(kind="source", name=name, **kw)


def SNK(name="sink", arg=0, **kw):
    return dict(kind="sink", name=name, arg=arg, **kw)


def taint_configs():
    """name -> (rules, relation to check against `base`)"""
    base = [SRC(), SNK()]
    return {
        "base": (base, None),
        "sink_designates_arg1": ([SRC(), SNK(arg=1)], None),
        "no_source_rules": ([SNK()], "empty"),
        "no_sink_rules": ([SRC()], "empty"),
        "rules_name_other_functions": ([SRC("nosuchsource"), SNK("nosuchsink")], "empty"),
        "rules_for_another_language": ([SRC(lang="java"), SNK(lang="java")], "empty"),
        # C units: no rule group written for javascript / csharp / typescript may apply although their names contain "c"
        "c_unit_rules_for_languages_containing_c": ([SRC(lang="javascript"), SNK(lang="javascript"), SRC(lang="csharp"), SNK(lang="typescript")], "empty"),
        "c_unit_rules_for_c": ([SRC(lang="c"), SNK(lang="c")], None),
        "source_rule_restricted_to_unit": ([SRC(unit_name="t_copy.py"), SNK()], None),
        "sink_rule_restricted_to_unit": ([SRC(), SNK(unit_name="t_binop.py")], None),
        "source_rule_restricted_to_line": ([SRC(line_num=2), SNK()], None),
        "sink_rule_restricted_to_line": ([SRC(), SNK(line_num=3)], None),
        "position_of_a_rule_restricted_to_another_unit": ([SRC(), SNK(arg=1), SNK(arg=0, unit_name="t_copy.py")], None),
        "position_of_a_rule_restricted_to_another_line": ([SRC(), SNK(arg=1), SNK(arg=0, line_num=1)], None),
        "extended": (base + [SNK("out"), SRC("inp"), SNK(arg=1), SRC("nosuchsource")], "superset"),
        "extended_by_restricted_rules": (base + [SRC(unit_name="t_copy.py"), SNK(line_num=3), SNK("out", unit_name="n_no_sink.py")], "superset"),
    }


def family_taint_justified():
    """C11 programs: the C10 family plus programs in which some tempting but unjustified pair exists"""
    F, N = family_taint()
    KO = "class Box:\n    def __init__(self, v):\n        self.v = v\n    def get(self):\n        return self.v\n    def put(self, x):\n        self.v = x\n"
    X = []

    def add(name, lines, helpers=""):
        p = prog(name, "F-taint-just", lines, helpers=helpers)
        p["src"] += TAIL
        X.append(p)
    add("j_unrelated_container", ["l = [source()]", "m = [1]", "sink(m[0])", "return 0"])
    add("j_wrong_parameter", ["t = source()", "h(t, 5)", "return 0"], helpers="def h(p, q):\n    sink(q)\n")
    add("j_result_dropped", ["source()", "u = g()", "sink(u)", "return 0"], helpers="def g():\n    return 3\n")
    add("j_alias_of_sink", ["s = sink", "t = source()", "s(t)", "return 0"])
    add("j_alias_of_source", ["s = source", "t = s()", "sink(t)", "return 0"])
    add("j_method_flow", ["o = Box(0)", "o.put(source())", "sink(o.get())", "return 0"], helpers=KO)
    add("j_method_other_object", ["o = Box(0)", "p = Box(1)", "o.put(source())", "sink(p.get())", "return 0"], helpers=KO)
    add("j_sink_before_source_other_var", ["v = 1", "sink(v)", "t = source()", "out(t)", "return 0"])
    add("j_two_args_both_positions", ["t = source()", "sink(t, 2)", "sink(3, t)", "return 0"])
    add("j_source_as_argument_of_other_call", ["t = source()", "u = g(t)", "sink(u)", "return 0"], helpers="def g(p):\n    return 4\n")
    add("j_closure", ["t = source()", "def inner():", "    sink(t)", "inner()", "return 0"])
    add("j_global", ["set_g()", "sink(G)", "return 0"], helpers="G = 0\ndef set_g():\n    global G\n    G = source()\n")
    add("j_inp_to_out", ["t = inp(0)", "out(t)", "sink(a)", "return 0"])
    return F + N + X


def family_taint_c():
    """C renderings for the rule-language configurations of C11 (entry rule names f)"""
    P = []
    for name, body in [("c_direct", "    int t = source();\n    sink(t);\n    return 0;\n"),
                       ("c_copy", "    int t = source();\n    int u = t;\n    sink(u);\n    return 0;\n"),
                       ("c_other_variable", "    int t = source();\n    int v = 5;\n    sink(v);\n    return t;\n")]:
        P.append(dict(name=name, family="F-taint-c", src="int f(int a, int b, int c) {\n" + body + "}\n", file=name + ".c", lang="c", bounds={}, known=None))
    return P
