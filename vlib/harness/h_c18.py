"""C18 harness: Lian.set_workspace_dir + WorkspaceBuilder.run (real code) over an in-memory filesystem."""
import posixpath
import types

from vlib import common
from vlib.xh import SLICE, fail

common.setup_lian()
import lian.preparation as prep  # noqa: E402
from lian.config import config as lian_config  # noqa: E402
from vlib.stubs import fakefs  # noqa: E402

REAL_OS, REAL_SHUTIL = prep.os, prep.shutil

WS_COMPS = ["in", "ws", "lian_workspace", "xlian_workspacey", "..", ".", "wsl"]      # wsl: a link into the input directory `in`
IN_PATHS = ["in", "ws", "lian_workspace", ".", "..", "f.py", "in/sub", "ws/lian_workspace"]
ABSENT = 9


def set_workspace_dir(options, fs=None):
    """The real Lian.set_workspace_dir, without constructing Lian (which parses sys.argv).  With `fs`, main.py's own
    `os` is the in-memory filesystem too (path computations there must see the modelled current directory)."""
    import lian.main as lm
    obj = lm.Lian.__new__(lm.Lian)
    obj.options = options
    real = lm.os
    if fs is not None:
        lm.os = fakefs.Os(fs)
    try:
        lm.Lian.set_workspace_dir(obj)
    finally:
        lm.os = real
    return options


BASES = ["/base", "/old_lian_workspace_runs/base"]     # the second: the current directory's own path contains the default name


def decode(wabs, w0, w1, i0, i1, nested, link, stale, force):
    """wabs: 0 relative, 1 absolute; 2/3 the same with the second base directory as cwd."""
    base = BASES[wabs // 2]
    comps = [WS_COMPS[w0]] + ([WS_COMPS[w1]] if w1 != ABSENT else [])
    ws = "/".join(comps)
    if wabs % 2:
        ws = posixpath.normpath(base + "/" + ws)
    ins = [IN_PATHS[i0]] + ([IN_PATHS[i1]] if i1 != ABSENT else [])
    # force: bit 0 = --force, bit 1 = --incremental;  stale: 0 none, 1 old files + out-pointing links inside, 2 the workspace's
    # own src and bak sub-directories are links that point out of it (left by a previous run or placed there)
    return dict(workspace=ws, in_path=ins, nested=bool(nested), link=bool(link), stale=int(stale), force=bool(force & 1),
                incremental=bool(force & 2), base=base)


def make_options(cfg):
    return types.SimpleNamespace(
        workspace=cfg["workspace"], in_path=list(cfg["in_path"]), force=cfg["force"], incremental=cfg.get("incremental", False), quiet=True,
        lang=["python"], lang_extensions=[".py"], strict_parse_mode=False, nomock=True, enable_header_preprocess=False,
        included_headers=None, default_workspace_dir=lian_config.DEFAULT_WORKSPACE)


def expected_workspace(option):
    """Where the workspace is documented to be: the option itself when it names the default directory, else a
    'lian_workspace' directory inside it (judged on the option as given, not on the current directory)."""
    d = lian_config.DEFAULT_WORKSPACE
    return option if d in option else posixpath.join(option, d)


def base_tree(fs, cfg, final_ws):
    base = cfg.get("base", "/base")
    fs.add_dir(base)
    fs.add_file(f"{base}/in/a.py", "A")
    fs.add_file(f"{base}/in/notes.txt", "N")
    if cfg["nested"]:
        fs.add_file(f"{base}/in/sub/b.py", "B")
    fs.add_file(f"{base}/other/c.py", "C")
    if cfg["link"]:
        fs.add_link(f"{base}/in/link", f"{base}/other")
    fs.add_file(f"{base}/ws/w.py", "W")
    fs.add_file(f"{base}/f.py", "F")
    fs.add_dir(f"{base}/in/build")
    fs.add_link(f"{base}/wsl", f"{base}/in/build")          # the workspace may be named through a link into an input
    fs.add_file("/outside/o.py", "O")
    final_ws = fs._real(final_ws)          # the option may name the workspace through a link (wsl): build the old workspace where it really is
    if cfg["stale"] == 2:
        fs.add_file("/outside/keep/k.txt", "K")
        fs.add_file("/outside/mirror/m.py", "M")
        fs.add_file(posixpath.join(final_ws, "old.txt"), "OLD")
        fs.add_link(posixpath.join(final_ws, "src"), "/outside/mirror")
        fs.add_link(posixpath.join(final_ws, "bak"), "/outside/keep")
    elif cfg["stale"]:
        fs.add_file(posixpath.join(final_ws, "src/old.py"), "OLD")
        fs.add_file(posixpath.join(final_ws, "old.txt"), "OLD")
        # a previous run's workspace may hold links that point out of it
        fs.add_link(posixpath.join(final_ws, "old_link"), "/outside")
        fs.add_link(posixpath.join(final_ws, "src/deep/lnk"), f"{base}/other")


def under(path, root):
    return path == root or path.startswith(root.rstrip("/") + "/")


def run_config(cfg, fuel=600):
    """Returns None or a description of the violation."""
    options = make_options(cfg)
    fs = fakefs.FS(cwd=cfg.get("base", "/base"), fuel=fuel)
    set_workspace_dir(options, fs)
    final_ws_abs = fs._abs(expected_workspace(cfg["workspace"]))
    base_tree(fs, cfg, final_ws_abs)
    ws_real = fs._real(final_ws_abs)
    before = fs.snapshot()
    prep.os, prep.shutil = fakefs.Os(fs), fakefs.Shutil(fs)
    outcome = "finished"
    try:
        prep.WorkspaceBuilder(options).run()
    except SystemExit:
        outcome = "refused"
    except fakefs.FuelExhausted as e:
        outcome = f"unbounded: {e}"
    except (OSError, KeyError, ValueError) as e:
        outcome = f"raised {type(e).__name__}"
    finally:
        prep.os, prep.shutil = REAL_OS, REAL_SHUTIL
    n_inputs = len([k for k in before if not under(k, ws_real)])
    if outcome.startswith("unbounded"):
        return f"copies an unbounded amount of data ({outcome}; the inputs hold {n_inputs} files and directories)"
    for op, p in fs.log:
        if op == "mkdir" and under(ws_real, p):
            continue                  # a missing parent directory of the workspace has to be created
        if not under(p, ws_real):
            return f"{op} of {p} outside the workspace {ws_real}"
        if op == "delete" and not cfg["force"]:
            if cfg.get("incremental") and under(p, posixpath.join(ws_real, "bak")):
                continue              # incremental mode rotates its own backup directory inside the workspace
            return f"delete of {p} without --force"
    for k, v in before.items():
        if under(k, ws_real):
            continue
        if fs.nodes.get(k) != v:
            return f"input/outside path {k} changed: {v} -> {fs.nodes.get(k)}"
    for k in fs.nodes:
        if k not in before and not under(k, ws_real) and not (under(ws_real, k) and fs.nodes[k][0] == "d"):
            return f"{k} created outside the workspace {ws_real}"
    if len(fs.log) > 12 * (n_inputs + 12):
        return f"{len(fs.log)} filesystem effects for {n_inputs} input paths: copying is not bounded by the inputs"
    return None


def _pre(wabs, w0, w1, i0, i1, nested, link, stale, force):
    if not (0 <= wabs <= 3 and 0 <= nested <= 1 and 0 <= link <= 1 and 0 <= stale <= 2 and 0 <= force <= 3):
        return False
    if not (0 <= w0 < len(WS_COMPS)) or not (w1 == ABSENT or 0 <= w1 < len(WS_COMPS)):
        return False
    if not (0 <= i0 < len(IN_PATHS)) or not (i1 == ABSENT or 0 <= i1 < len(IN_PATHS)):
        return False
    f = SLICE.get("fix", {})
    vals = dict(wabs=wabs, w0=w0, w1=w1, i0=i0, i1=i1, nested=nested, link=link, stale=stale, force=force)
    for k, allowed in f.items():
        if vals[k] not in allowed:
            return False
    if IN_PATHS[i0] == "in/sub" and not nested:
        return False
    if i1 != ABSENT and IN_PATHS[i1] == "in/sub" and not nested:
        return False
    return True


def check_confinement(wabs: int, w0: int, w1: int, i0: int, i1: int, nested: int, link: int, stale: int, force: int) -> bool:
    """
    pre: _pre(wabs, w0, w1, i0, i1, nested, link, stale, force)
    post: _
    """
    cfg = decode(wabs, w0, w1, i0, i1, nested, link, stale, force)
    why = run_config(cfg)
    if why:
        return fail("confinement", cfg=cfg, why=why)
    return True


def check_confinement_reach(wabs: int, w0: int, w1: int, i0: int, i1: int, nested: int, link: int, stale: int, force: int) -> bool:
    """
    pre: _pre(wabs, w0, w1, i0, i1, nested, link, stale, force)
    post: _
    """
    cfg = decode(wabs, w0, w1, i0, i1, nested, link, stale, force)
    options = make_options(cfg)
    fs = fakefs.FS(cwd=cfg.get("base", "/base"), fuel=600)
    set_workspace_dir(options, fs)
    base_tree(fs, cfg, fs._abs(expected_workspace(cfg["workspace"])))
    prep.os, prep.shutil = fakefs.Os(fs), fakefs.Shutil(fs)
    try:
        prep.WorkspaceBuilder(options).run()
    except SystemExit:
        pass
    finally:
        prep.os, prep.shutil = REAL_OS, REAL_SHUTIL
    return not any(op == "write" for op, _ in fs.log)


def classify(cfg, why):
    """Fingerprint class of a confinement failure: relation of workspace and inputs + kind."""
    kind = why.split(" ")[0]
    return f"confinement:{kind}:ws={cfg['workspace']}:in={','.join(cfg['in_path'])}"


def replay(func, cex):
    """Native replay on the real filesystem in a scratch directory (subprocess, time-capped)."""
    import json
    import os
    import subprocess
    import sys
    import tempfile
    import shutil
    cfg = cex["cfg"]
    scratch = tempfile.mkdtemp(prefix="lian-verif-c18-")
    try:
        p = subprocess.run([sys.executable, "-m", "vlib.tools.c18_replay", scratch, json.dumps(cfg)],
                           capture_output=True, text=True, timeout=120,
                           env=dict(os.environ, PYTHONPATH=common.VERIF))
        out = None
        for line in p.stdout.splitlines():
            if line.startswith("C18RESULT "):
                out = json.loads(line[10:])
        if out is None:
            return {"violated": False, "error": "replay produced no result: " + (p.stderr or "")[-500:]}
    except subprocess.TimeoutExpired:
        out = {"why": "real run did not finish within 120 s (unbounded copying)"}
    finally:
        shutil.rmtree(scratch, ignore_errors=True)
    why = out.get("why")
    return {"violated": bool(why), "observed": why,
            "what": f"workspace option {cfg['workspace']!r}, inputs {cfg['in_path']}, force={cfg['force']}, "
                    f"incremental={cfg.get('incremental', False)}, stale={cfg['stale']}, nested={cfg['nested']}, symlink={cfg['link']} -> {why}",
            "fingerprint": classify(cfg, why or "")}


# warm-up (executed, not asserted)
run_config(decode(0, 1, ABSENT, 0, ABSENT, 1, 1, 1, 1))
