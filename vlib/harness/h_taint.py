"""SFG kernels shared by C10 (completeness), C11 (no fabricated taint, sink positions) and C13(a) (termination):
the real PathFinder.propagate_taint / TaintRuleApplier.get_sink_tag_by_rules on every small typed state-flow graph."""
import collections
import types

from vlib import common
from vlib.xh import SLICE, fail

common.setup_lian()
import lian.taint.taint_analysis as ta_mod  # noqa: E402
from lian.common_structs import SFGEdge, SFGNode, StateFlowGraph  # noqa: E402
from lian.config.constants import SFG_EDGE_KIND as EK, SFG_NODE_KIND as NK, TAG_KEYWORD  # noqa: E402
from lian.taint.taint_structs import TaintEnv  # noqa: E402

OPS = ["assign_stmt", "if_stmt", "object_call_stmt"]      # propagating, non-propagating, receiver write-back


class FuelExhausted(Exception):
    pass


class CountingDeque(collections.deque):
    fuel = 10 ** 9
    pops = 0

    def popleft(self):
        CountingDeque.pops += 1
        if CountingDeque.pops > CountingDeque.fuel:
            raise FuelExhausted()
        return super().popleft()


def make_nodes(n_sym, n_state, n_stmt, op):
    syms = [SFGNode(node_type=NK.SYMBOL, def_stmt_id=10 + i, index=i, node_id=1 + i, name=f"v{i}") for i in range(n_sym)]
    states = [SFGNode(node_type=NK.STATE, def_stmt_id=20 + i, index=10 + i, node_id=101 + i, name=f"t{i}") for i in range(n_state)]
    stmts = [SFGNode(node_type=NK.STMT, def_stmt_id=30 + i, index=-1, node_id=-1, name=op if i == 0 else "assign_stmt")
             for i in range(n_stmt)]
    return syms, states, stmts


def edge_slots(n_sym, n_state, n_stmt):
    """Ordered list of (src kind, i, dst kind, j, options); option 0 = absent."""
    slots = []
    for i in range(n_sym):
        for j in range(n_state):
            slots.append(("sym", i, "state", j, [None, (EK.SYMBOL_STATE, -1)]))
    for i in range(n_sym):
        for j in range(n_stmt):
            slots.append(("sym", i, "stmt", j, [None, (EK.SYMBOL_IS_USED, 0), (EK.SYMBOL_IS_USED, 1)]))
    for i in range(n_stmt):
        for j in range(n_sym):
            slots.append(("stmt", i, "sym", j, [None, (EK.SYMBOL_IS_DEFINED, -1)]))
    for i in range(n_sym):
        for j in range(n_sym):
            if i != j:
                slots.append(("sym", i, "sym", j, [None, (EK.SYMBOL_FLOW, -1)]))
    for i in range(n_state):
        for j in range(n_state):
            if i != j:
                slots.append(("state", i, "state", j, [None, (EK.STATE_INCLUSION, -1)]))
    return slots


def build(shape, choices, op):
    n_sym, n_state, n_stmt = shape
    syms, states, stmts = make_nodes(n_sym, n_state, n_stmt, op)
    pools = {"sym": syms, "state": states, "stmt": stmts}
    g = StateFlowGraph(1)
    edges = []
    for (sk, i, dk, j, opts), c in zip(edge_slots(*shape), choices):
        o = opts[c]
        if o is None:
            continue
        # the real construction path of the pipeline: StateFlowGraph.add_edge(SFGNode, SFGNode, SFGEdge)
        g.add_edge(pools[sk][i], pools[dk][j], SFGEdge(edge_type=o[0], stmt_id=30, pos=o[1]))
        edges.append((sk, i, dk, j, o[0], o[1]))
    for n in syms + states + stmts:
        g.graph.add_node(n)
    return g, pools, edges


def reference(shape, edges, source, ops_of_stmt):
    """Least fixpoint of the documented rules (docs 6-2 section 3).  Returns (tainted symbols, tainted states)."""
    sym, st = set(), set()
    sk, si = source
    if sk == "sym":
        sym.add(si)
        for (a, i, b, j, et, pos) in edges:
            if a == "sym" and i == si and b == "state" and et == EK.SYMBOL_STATE:
                st.add(j)
    elif sk == "state":
        st.add(si)
    changed = True
    while changed:
        changed = False

        def add(s, x):
            nonlocal changed
            if x not in s:
                s.add(x)
                changed = True
        for (a, i, b, j, et, pos) in edges:
            if a == "sym" and b == "state" and et == EK.SYMBOL_STATE:
                if i in sym:
                    add(st, j)          # symbol -> its states
                if j in st:
                    add(sym, i)         # state -> symbols pointing to it
            if a == "state" and b == "state" and et == EK.STATE_INCLUSION and i in st:
                add(st, j)              # state -> included state
            if a == "sym" and b == "sym" and et == EK.SYMBOL_FLOW and i in sym:
                add(sym, j)             # symbol flow
        for m, op in enumerate(ops_of_stmt):
            used = [i for (a, i, b, j, et, pos) in edges if a == "sym" and b == "stmt" and j == m and et == EK.SYMBOL_IS_USED]
            if not any(i in sym for i in used):
                continue
            if op not in ("assign_stmt", "object_call_stmt"):
                continue                # the statement does not propagate
            for (a, i, b, j, et, pos) in edges:
                if a == "stmt" and i == m and b == "sym" and et == EK.SYMBOL_IS_DEFINED:
                    add(sym, j)         # statement -> defined symbol
            if op == "object_call_stmt":
                recv = [i for (a, i, b, j, et, pos) in edges
                        if a == "sym" and b == "stmt" and j == m and et == EK.SYMBOL_IS_USED and pos == 0]
                if len(recv) == 1:
                    add(sym, recv[0])   # side effect on the receiver
    return sym, st


def run_graph(shape, choices, source, op, fuel=None):
    """Returns dict(got_sym, got_state, want_sym, want_state, pops, outcome)."""
    g, pools, edges = build(shape, choices, op)
    env = TaintEnv()
    applier = ta_mod.TaintRuleApplier.__new__(ta_mod.TaintRuleApplier)
    applier.rule_manager = types.SimpleNamespace(all_propagations=[])
    ta = types.SimpleNamespace(sfg=g.graph, taint_manager=env, rule_applier=applier)
    applier.taint_analysis = ta
    applier.sfg = g.graph
    pf = ta_mod.PathFinder(ta)
    n_nodes = sum(shape)
    CountingDeque.pops = 0
    CountingDeque.fuel = fuel if fuel is not None else 8 * (n_nodes + len(edges) + 1)
    real_deque = ta_mod.deque
    ta_mod.deque = CountingDeque
    outcome = "finished"
    try:
        pf.propagate_taint(pools[source[0]][source[1]])
    except FuelExhausted:
        outcome = "fuel"
    finally:
        ta_mod.deque = real_deque
    got_sym = sorted(i for i, n in enumerate(pools["sym"]) if env.get_symbol_tag(n.node_id) != 0)
    got_state = sorted(i for i, n in enumerate(pools["state"]) if env.get_state_tag(n.node_id) != 0)
    ops_of_stmt = [op] + ["assign_stmt"] * (shape[2] - 1)
    ws, wt = reference(shape, edges, source, ops_of_stmt)
    return dict(got_sym=got_sym, got_state=got_state, want_sym=sorted(ws), want_state=sorted(wt),
                pops=CountingDeque.pops, outcome=outcome, edges=edges)


def judge(res, mode):
    if res["outcome"] == "fuel":
        return "termination" if mode in ("all", "termination") else None, f"more than the fuel of worklist pops ({res['pops']})"
    miss_s = [i for i in res["want_sym"] if i not in res["got_sym"]]
    miss_t = [i for i in res["want_state"] if i not in res["got_state"]]
    extra_s = [i for i in res["got_sym"] if i not in res["want_sym"]]
    extra_t = [i for i in res["got_state"] if i not in res["want_state"]]
    if mode in ("all", "complete") and (miss_s or miss_t):
        return "complete", f"not tainted although the rules taint them: symbols {miss_s} states {miss_t}"
    if mode in ("all", "sound") and (extra_s or extra_t):
        return "sound", f"tainted although no rule taints them: symbols {extra_s} states {extra_t}"
    return None, None


def _choices(args):
    n = len(edge_slots(*SLICE["shape"]))
    return list(args[:n])


def _pre(args, src, op):
    slots = edge_slots(*SLICE["shape"])
    fix = SLICE.get("fix", {})
    for k, (sk, i, dk, j, opts) in enumerate(slots):
        if not (0 <= args[k] < len(opts)):
            return False
        if str(k) in fix and args[k] not in fix[str(k)]:
            return False
    # well-formed use edges: the operands of one statement occupy distinct positions (one receiver at most)
    for m in range(SLICE["shape"][2]):
        seen = []
        for k, (sk, i, dk, j, opts) in enumerate(slots):
            if sk == "sym" and dk == "stmt" and j == m and args[k] != 0:
                if args[k] in seen:
                    return False
                seen.append(args[k])
    srcs = sources(SLICE["shape"])
    if not (0 <= src < len(srcs)) or not (0 <= op < len(OPS)):
        return False
    if "src" in SLICE and src not in SLICE["src"]:
        return False
    if "op" in SLICE and op not in SLICE["op"]:
        return False
    return True


def sources(shape):
    return [("sym", i) for i in range(shape[0])] + [("state", i) for i in range(shape[1])] + [("stmt", 0)]


def check_propagation(e0: int, e1: int, e2: int, e3: int, e4: int, e5: int, e6: int, e7: int, e8: int, e9: int,
                      e10: int, e11: int, e12: int, e13: int, e14: int, e15: int, e16: int, e17: int, e18: int, e19: int,
                      src: int, op: int) -> bool:
    """
    pre: _pre((e0, e1, e2, e3, e4, e5, e6, e7, e8, e9, e10, e11, e12, e13, e14, e15, e16, e17, e18, e19), src, op)
    post: _
    """
    ch = _choices((e0, e1, e2, e3, e4, e5, e6, e7, e8, e9, e10, e11, e12, e13, e14, e15, e16, e17, e18, e19))
    shape = tuple(SLICE["shape"])
    res = run_graph(shape, ch, sources(shape)[src], OPS[op])
    kind, why = judge(res, SLICE.get("mode", "all"))
    if kind:
        return fail(kind, shape=list(shape), choices=ch, src=src, op=op, why=why, edges=res["edges"])
    return True


def check_propagation_reach(e0: int, e1: int, e2: int, e3: int, e4: int, e5: int, e6: int, e7: int, e8: int, e9: int,
                            e10: int, e11: int, e12: int, e13: int, e14: int, e15: int, e16: int, e17: int, e18: int, e19: int,
                      src: int, op: int) -> bool:
    """
    pre: _pre((e0, e1, e2, e3, e4, e5, e6, e7, e8, e9, e10, e11, e12, e13, e14, e15, e16, e17, e18, e19), src, op)
    post: _
    """
    ch = _choices((e0, e1, e2, e3, e4, e5, e6, e7, e8, e9, e10, e11, e12, e13, e14, e15, e16, e17, e18, e19))
    shape = tuple(SLICE["shape"])
    res = run_graph(shape, ch, sources(shape)[src], OPS[op])
    return not (len(res["want_sym"]) >= 2 and res["got_sym"] == res["want_sym"])


def describe(cex):
    shape = tuple(cex["shape"])
    names = {EK.SYMBOL_STATE: "SYMBOL_STATE", EK.SYMBOL_IS_USED: "SYMBOL_IS_USED", EK.SYMBOL_IS_DEFINED: "SYMBOL_IS_DEFINED",
             EK.SYMBOL_FLOW: "SYMBOL_FLOW", EK.STATE_INCLUSION: "STATE_INCLUSION"}
    es = [f"{a}{i}->{b}{j}:{names.get(et, et)}{'' if pos < 0 else '@' + str(pos)}" for (a, i, b, j, et, pos) in cex.get("edges", [])]
    return f"SFG {shape} (symbols,states,stmts), stmt0 is {OPS[cex['op']]}, source {sources(shape)[cex['src']]}, edges {es}"


def replay(func, cex):
    shape = tuple(cex["shape"])
    res = run_graph(shape, cex["choices"], sources(shape)[cex["src"]], OPS[cex["op"]])
    cex = dict(cex, edges=res["edges"])
    kind, why = judge(res, "all" if cex["kind"] not in ("complete", "sound", "termination") else cex["kind"])
    return {"violated": bool(kind), "observed": why, "what": f"{describe(cex)} -> {why}",
            "fingerprint": f"sfg:{kind}:{cex['shape']}:{cex['choices']}:{cex['src']}:{cex['op']}"}


# warm-up (networkx compiles decorators lazily; must happen outside tracing), not asserted
run_graph((2, 1, 1), [1, 0, 1, 0, 1, 0, 0, 1], ("sym", 0), "assign_stmt")


# ---- C11: sink tag only from the rule-designated position -------------------------------------------------
from lian.taint.rule_manager import Rule  # noqa: E402

TARGETS = [TAG_KEYWORD.ARG0, TAG_KEYWORD.ARG1, TAG_KEYWORD.ARG2, TAG_KEYWORD.ARG3, TAG_KEYWORD.ARG4,
           TAG_KEYWORD.RECEIVER, TAG_KEYWORD.TARGET, "", "\\%arg7", "foo"]
KNOWN_POS = {TAG_KEYWORD.ARG0: 1, TAG_KEYWORD.ARG1: 2, TAG_KEYWORD.ARG2: 3, TAG_KEYWORD.ARG3: 4, TAG_KEYWORD.ARG4: 5,
             TAG_KEYWORD.RECEIVER: 0}
WILDCARD = (TAG_KEYWORD.TARGET, "")


SCOPES = [dict(), dict(unit_name="a.py"), dict(unit_name="b.py"), dict(line_num=4), dict(line_num=9)]   # the call is a.py line 4
IN_SCOPE = [True, True, False, True, False]


def run_sink(present, tainted, targets, rule_op="call_stmt", object_call=False, scope=0, split=False):
    """call_stmt `sink(...)` (or object_call_stmt `db.sink(...)`) whose operand at position k exists iff present[k] and carries
    bit k+1 iff tainted[k].  Returns (got_tag or 'raised X', want_tag)."""
    g = StateFlowGraph(1)
    opname = "object_call_stmt" if object_call else "call_stmt"
    stmt = types.SimpleNamespace(name="sink", start_row=3, operation=opname, receiver_object="db", field="sink")
    node = SFGNode(node_type=NK.STMT, def_stmt_id=50, name=opname)
    node.stmt = stmt
    node.line_no = 3
    node.operation = opname + " sink"
    g.graph.add_node(node)
    env = TaintEnv()
    preds = {}
    for k in range(len(present)):
        if present[k]:
            p = SFGNode(node_type=NK.SYMBOL, def_stmt_id=40 + k, index=k, node_id=60 + k, name=f"a{k}")
            g.add_edge(p, node, SFGEdge(edge_type=EK.SYMBOL_IS_USED, stmt_id=50, pos=k))
            preds[k] = p
            if tainted[k]:
                env.symbols_to_bv[p.node_id] = 1 << (k + 1)
    tobj = ta_mod.TaintAnalysis.__new__(ta_mod.TaintAnalysis)
    tobj.sfg = g.graph
    tobj.taint_manager = env
    applier = ta_mod.TaintRuleApplier.__new__(ta_mod.TaintRuleApplier)
    if split and len(targets) > 1:           # first target in a (possibly restricted) rule of its own, the rest unrestricted
        rules = [Rule(operation=rule_op, name="sink", target=[targets[0]], vuln_type="v", **SCOPES[scope]),
                 Rule(operation=rule_op, name="sink", target=list(targets[1:]), vuln_type="v")]
        effective = (list(targets[:1]) if IN_SCOPE[scope] else []) + list(targets[1:])
    else:
        rules = [Rule(operation=rule_op, name="sink", target=list(targets), vuln_type="v", **SCOPES[scope])]
        effective = list(targets) if IN_SCOPE[scope] else []
    applier.rule_manager = types.SimpleNamespace(all_sinks=rules, all_sinks_from_code=[])
    applier.loader = types.SimpleNamespace(convert_stmt_id_to_unit_id=lambda sid: 7,
                                           convert_module_id_to_module_info=lambda uid: types.SimpleNamespace(original_path="/p/a.py", unit_path="ws/src/a.py"))
    applier.taint_analysis = tobj
    applier.sfg = g.graph
    tobj.rule_applier = applier
    try:
        got, _ = applier.get_sink_tag_by_rules(node)
    except Exception as e:  # noqa
        got = f"raised {type(e).__name__}"
    want = 0
    if rule_op == "call_stmt" or object_call:
        for t in effective:
            for k in range(len(present)):
                if not (present[k] and tainted[k]):
                    continue
                pos = KNOWN_POS.get(t, -99)
                if object_call and pos > 0:
                    pos += 1                  # object call: receiver at 0, callee name at 1, arguments from 2
                if t in WILDCARD or pos == k:
                    want |= 1 << (k + 1)
    return got, want


def _sink_pre(s0, s1, s2, t0, t1, op):
    for v in (s0, s1, s2):
        if not (0 <= v <= 2):
            return False
    if not (0 <= op <= 2) or op not in SLICE.get("op", [0]):
        return False
    nt = len(TARGETS)
    if not (0 <= t0 < nt) or not (t1 == -1 or 0 <= t1 < nt):
        return False
    f = SLICE.get("t0")
    if f is not None and t0 not in f:
        return False
    f1 = SLICE.get("t1")
    if f1 is not None and t1 not in f1:
        return False
    return True


def _scope_of_slice():
    return int(SLICE.get("scope", 0)), bool(SLICE.get("split", False))


def check_sink_positions(s0: int, s1: int, s2: int, t0: int, t1: int, op: int) -> bool:
    """
    pre: _sink_pre(s0, s1, s2, t0, t1, op)
    post: _
    """
    scope, split = _scope_of_slice()
    targets = [TARGETS[t0]] + ([TARGETS[t1]] if t1 >= 0 else [])
    present = [int(v > 0) for v in (s0, s1, s2)]
    tainted = [int(v == 2) for v in (s0, s1, s2)]
    if op == 2:                               # object call: operands at positions 0 (receiver), 2, 3 (arguments 0 and 1)
        present = [present[0], 0, present[1], present[2]]
        tainted = [tainted[0], 0, tainted[1], tainted[2]]
    base = int(SLICE.get("base", 0))          # the three symbolic operands sit at positions base..base+2 (arguments base-1..base+1)
    if base:
        present = [0] * base + present
        tainted = [0] * base + tainted
    got, want = run_sink(present, tainted, targets, "field_write" if op == 1 else "call_stmt", object_call=(op == 2),
                         scope=scope, split=split)
    if got != want:
        return fail("sink-position", present=present, tainted=tainted, targets=[t0, t1], op=op, got=str(got), want=want,
                    scope=scope, split=split)
    return True


_replay_sfg = replay


def replay(func, cex):   # noqa: F811
    if func == "check_sink_positions":
        t0, t1 = cex["targets"]
        targets = [TARGETS[t0]] + ([TARGETS[t1]] if t1 >= 0 else [])
        got, want = run_sink(cex["present"], cex["tainted"], targets, "field_write" if cex["op"] == 1 else "call_stmt",
                             object_call=(cex["op"] == 2), scope=cex.get("scope", 0), split=cex.get("split", False))
        restr = f" [first target in a rule restricted by {SCOPES[cex.get('scope', 0)]}, call is a.py line 4" + \
                (", the other targets in an unrestricted rule]" if cex.get("split") else "]") if cex.get("scope") else ""
        return {"violated": got != want, "observed": str(got),
                "what": f"sink rule{restr} (operation {['call_stmt', 'field_write', 'object_call'][cex['op']]}, target {targets}) on {'db.sink' if cex['op'] == 2 else 'sink'}(...) with "
                        f"operands present at positions {[k for k in range(len(cex['present'])) if cex['present'][k]]}, tainted "
                        f"{[k for k in range(len(cex['present'])) if cex['present'][k] and cex['tainted'][k]]}: sink tag {got}, designated positions give {want}",
                "fingerprint": f"sink-position:{targets}:{'raise' if isinstance(got, str) else 'tag'}" + (f":scope{cex.get('scope')}" if cex.get("scope") else "")}
    return _replay_sfg(func, cex)


run_sink([1, 1, 0, 0], [0, 1, 0, 0], [TAG_KEYWORD.ARG0])     # warm-up, not asserted
