"""C20 kernels: EntryPointGenerator.filter_rule_by_unit_info + check_rules, util.check_file_processing_flag_and_extract_lang."""
import types

from vlib import common
from vlib.xh import SLICE, fail

common.setup_lian()
from lian.basics.entry_points import EntryPointGenerator  # noqa: E402
from lian.config.constants import LIAN_SYMBOL_KIND  # noqa: E402
from lian.util import util as lian_util  # noqa: E402

# per-field options of a rule; option 0 is always "absent"
RULE_OPTS = {
    "lang": ["", "python", "java"],
    "unit_id": [-1, 7, 8],
    "unit_name": ["", "a", "b.py"],
    "unit_path": ["", "src/", "lib/"],
    "method_id": [-1, 10, 12],
    "method_list": [[], ["main", "f"], ["g"]],
    "attrs": [[], ["static"], ["public", "static"]],
    "args": ["", "x"],
    "return_type": ["", "int"],
}
FIELDS = list(RULE_OPTS)
UNITS = [("python", 7, "src/a.py"), ("java", 8, "lib/b.py"), ("python", 8, "src/sub/ab.pyc")]
METHOD_NAMES = ["main", "g", None, "f"]
METHOD_ATTRS = [None, "['static']", "['public', 'static']"]


class LazyRule:
    """Duck-typed EntryPointRule whose fields are decoded from solver-chosen option indices only when read."""

    def __init__(self, choices):
        object.__setattr__(self, "_c", choices)
        object.__setattr__(self, "_cache", {})

    def _field(self, name):
        if name not in self._cache:
            self._cache[name] = RULE_OPTS[name][self._c[FIELDS.index(name)]]
        return self._cache[name]

    def __getattr__(self, name):
        if name in RULE_OPTS:
            return self._field(name)
        if name.startswith("is_") and name.endswith("_available"):
            # the real EntryPointRule.check_availablility: util.is_available(field)
            return lian_util.is_available(self._field(name[3:-10]))
        raise AttributeError(name)


class LazyScope:
    def __init__(self, stmt_id, kind, name_choice, attrs_choice):
        self.stmt_id, self.scope_kind = stmt_id, kind
        self._n, self._a = name_choice, attrs_choice

    @property
    def name(self):
        return METHOD_NAMES[self._n]

    @property
    def attrs(self):
        return METHOD_ATTRS[self._a]


class ScopeTable:
    def __init__(self, rows):
        self.rows = rows

    def query_index_column_value(self, col, value):
        return [r for r in self.rows if getattr(r, col) == value]


def ref_unit_match(rule, unit):
    lang, mid, path = unit
    base = path.rsplit("/", 1)[-1]
    if rule.lang != "" and rule.lang != lang:
        return False
    if rule.unit_id >= 0 and rule.unit_id != mid:
        return False
    if rule.unit_name != "" and rule.unit_name not in base:
        return False
    if rule.unit_path != "" and rule.unit_path not in path:
        return False
    return True


def ref_method_match(rule, scope):
    if rule.method_id >= 0:
        return rule.method_id == scope.stmt_id
    name = scope.name or ""
    attrs = scope.attrs or ""
    if rule.method_list and name not in rule.method_list:
        return False
    if rule.attrs and not (attrs and all(a in attrs for a in rule.attrs)):
        return False
    if rule.args != "" or rule.return_type != "":
        return False          # the method's args / return type are not known to the selector: a rule naming them selects nothing
    return True


def run_selection(unit_idx, rule_choices, m0, m1):
    unit = UNITS[unit_idx]
    # the real constructor (so that attributes it introduces exist); it walks a settings directory that does not exist
    gen = EntryPointGenerator(types.SimpleNamespace(default_settings="/nonexistent-lian-verif-settings"), None, None)
    gen.entry_point_rules = [LazyRule(c) for c in rule_choices]
    gen.entry_point_results = []
    results = []

    class _Res:
        def add(self, x):
            results.append(x)
    gen.entry_point_results = _Res()
    unit_info = types.SimpleNamespace(lang=unit[0], module_id=unit[1], unit_path=unit[2])
    scopes = [LazyScope(10, LIAN_SYMBOL_KIND.METHOD_KIND, m0[0], m0[1]), LazyScope(11, LIAN_SYMBOL_KIND.METHOD_KIND, m1[0], m1[1]),
              LazyScope(12, LIAN_SYMBOL_KIND.CLASS_KIND, 0, 0)]
    cands = gen.filter_rule_by_unit_info(unit_info)
    if cands:
        gen.check_rules(unit_info, ScopeTable(scopes), cands)
    want = []
    for s in scopes[:2]:
        sel = False
        for r in gen.entry_point_rules:
            if ref_unit_match(r, unit) and ref_method_match(r, s):
                sel = True
        if sel:
            want.append(s.stmt_id)
    got = sorted(set(results))
    if got != want:
        return f"selected {got}, rules select {want}"
    return None


def _pre(args):
    nrules = SLICE.get("rules", 1)
    for r in range(nrules):
        for i, f in enumerate(FIELDS):
            c = args[9 * r + i]
            if not (0 <= c < len(RULE_OPTS[f])):
                return False
    fix = SLICE.get("fix")
    if fix:
        for idx, allowed in fix.items():
            if args[int(idx)] not in allowed:
                return False
    if not (0 <= args[18] < 3 and 0 <= args[19] < 3):
        return False
    if args[20] != 3 or args[21] != 1:      # the second method is fixed: name "f", attrs ['static']
        return False
    return True


def check_selection(a0: int, a1: int, a2: int, a3: int, a4: int, a5: int, a6: int, a7: int, a8: int,
                    b0: int, b1: int, b2: int, b3: int, b4: int, b5: int, b6: int, b7: int, b8: int,
                    n0: int, t0: int, n1: int, t1: int) -> bool:
    """
    pre: _pre((a0, a1, a2, a3, a4, a5, a6, a7, a8, b0, b1, b2, b3, b4, b5, b6, b7, b8, n0, t0, n1, t1))
    post: _
    """
    rules = [[a0, a1, a2, a3, a4, a5, a6, a7, a8], [b0, b1, b2, b3, b4, b5, b6, b7, b8]][:SLICE.get("rules", 1)]
    why = run_selection(SLICE.get("unit", 0), rules, (n0, t0), (n1, t1))
    if why:
        return fail("selection", unit=SLICE.get("unit", 0), rules=rules, methods=[[n0, t0], [n1, t1]], why=why)
    return True


def check_selection_reach(a0: int, a1: int, a2: int, a3: int, a4: int, a5: int, a6: int, a7: int, a8: int,
                          b0: int, b1: int, b2: int, b3: int, b4: int, b5: int, b6: int, b7: int, b8: int,
                          n0: int, t0: int, n1: int, t1: int) -> bool:
    """
    pre: _pre((a0, a1, a2, a3, a4, a5, a6, a7, a8, b0, b1, b2, b3, b4, b5, b6, b7, b8, n0, t0, n1, t1))
    post: _
    """
    rules = [[a0, a1, a2, a3, a4, a5, a6, a7, a8], [b0, b1, b2, b3, b4, b5, b6, b7, b8]][:SLICE.get("rules", 1)]
    unit = UNITS[SLICE.get("unit", 0)]
    r = LazyRule(rules[0])
    s = LazyScope(10, LIAN_SYMBOL_KIND.METHOD_KIND, n0, t0)
    return not (ref_unit_match(r, unit) and ref_method_match(r, s) and a5 != 0)


# ---- settings file-name filter ---------------------------------------------------------------------------
SUFFIXES = ["entry.yaml", "-entry.yaml", "entry.yam", "xentry.yaml", "entry.yaml.bak", "-entry.yaml-entry.yaml"]
REQ = "entry.yaml"


def ref_filename(name):
    if name == REQ:
        return (True, "")
    if name.endswith("-" + REQ):
        lang = name[:name.index("-")]
        return (len(lang) > 0, lang)
    return (False, "")


def check_filename(p: str, s: int) -> bool:
    """
    pre: len(p) <= SLICE.get("plen", 3) and all(c in "a-.e" for c in p) and 0 <= s < len(SUFFIXES)
    post: _
    """
    name = p + SUFFIXES[s]
    real_error = lian_util.error
    lian_util.error = lambda *a: None          # logging stub (printing a symbolic string is not the subject)
    try:
        got = lian_util.check_file_processing_flag_and_extract_lang(name, REQ)
    except Exception as e:  # noqa
        return fail("filename", name=name, why=f"raised {type(e).__name__}")
    finally:
        lian_util.error = real_error
    want = ref_filename(name)
    if bool(got[0]) != want[0] or (want[0] and got[1] != want[1]):
        return fail("filename", name=name, got=[bool(got[0]), got[1]], want=list(want), why="loaded/lang differs")
    return True


def describe(cex):
    rules = [{f: RULE_OPTS[f][c] for f, c in zip(FIELDS, r)} for r in cex["rules"]]
    ms = [(METHOD_NAMES[n], METHOD_ATTRS[t]) for n, t in cex["methods"]]
    return f"unit {UNITS[cex['unit']]}, rules {rules}, methods 10/11 = {ms}"


def replay(func, cex):
    if func.startswith("check_selection"):
        why = run_selection(cex["unit"], cex["rules"], tuple(cex["methods"][0]), tuple(cex["methods"][1]))
        return {"violated": bool(why), "observed": why, "what": f"{describe(cex)} -> {why}",
                "fingerprint": "selection:" + str(cex["rules"]) + str(cex["unit"])}
    if func == "check_filename":
        name = cex["name"]
        got = lian_util.check_file_processing_flag_and_extract_lang(name, REQ)
        want = ref_filename(name)
        bad = bool(got[0]) != want[0] or (want[0] and got[1] != want[1])
        return {"violated": bad, "what": f"settings file name {name!r}: loader says {got}, documented rule says {want}",
                "fingerprint": "filename:" + name}
    raise ValueError(func)


run_selection(0, [[1, 1, 1, 1, 0, 1, 1, 0, 0]], (0, 1), (1, 0))      # warm-up, not asserted
