"""C19 harnesses: PathTrie / PathManager / CallSite / CallPath (real classes from lian.common_structs)."""
from typing import List

from vlib import common
from vlib.xh import SLICE, fail

common.setup_lian()
from lian.common_structs import CallPath, CallSite, PathManager  # noqa: E402

# call-site alphabet: codes 0..2 are valid call sites, code 3 has a negative statement id
NEG = 3


def site(code: int) -> CallSite:
    if code == NEG:
        return CallSite(1, -1, 2)
    return CallSite(code + 1, code + 10, code + 2)


def mk(path: List[int]) -> CallPath:
    return CallPath(tuple(site(c) for c in path))


def is_prefix(p, q):
    """p proper prefix of q (lists of codes)."""
    if len(p) >= len(q):
        return False
    for i in range(len(p)):
        if p[i] != q[i]:
            return False
    return True


def same(p, q):
    if len(p) != len(q):
        return False
    for i in range(len(p)):
        if p[i] != q[i]:
            return False
    return True


class Model:
    """Reference: the maximal valid paths, as a plain list of code lists."""

    def __init__(self):
        self.stored = []

    def has(self, p):
        for q in self.stored:
            if same(p, q):
                return True
        return False

    def add(self, p):
        for c in p:
            if c == NEG:
                return False
        if self.has(p):
            return False
        for q in self.stored:
            if is_prefix(p, q):
                return False
        self.stored = [q for q in self.stored if not is_prefix(q, p)]
        self.stored.append(list(p))
        return True

    def remove(self, p):
        if not self.has(p):
            return False
        self.stored = [q for q in self.stored if not same(p, q)]
        return True


def _agree(pm: PathManager, model: Model, universe):
    """Stored sets agree, judged through membership of every path of the (concrete) universe + sizes."""
    if len(pm.paths) != len(model.stored):
        return False
    if len(pm.trie.paths) != len(model.stored):
        return False
    for q in model.stored:
        cp = mk(q)
        if cp not in pm.paths or cp not in pm.trie.paths:
            return False
    for cp in pm.paths:
        if cp.has_any_negative():
            return False
    return True


def history_ok(kinds: List[int], paths: List[List[int]], reach=None) -> bool:
    pm = PathManager()
    model = Model()
    for i in range(len(kinds)):
        k, p = kinds[i], paths[i]
        cp = mk(p)
        if k == 0:
            got, want = pm.add_path(cp), model.add(p)
        elif k == 1:
            got, want = pm.remove_path(cp), model.remove(p)
        else:
            got, want = pm.path_exists(cp), model.has(p)
        if bool(got) != bool(want):
            return fail("return-value", step=i, kinds=kinds, paths=paths, got=bool(got), want=bool(want))
        if not _agree(pm, model, None):
            return fail("stored-set", step=i, kinds=kinds, paths=paths,
                        got=sorted(str(x) for x in pm.paths), want=model.stored)
    if reach is not None and len(model.stored) >= reach and len(model.stored[0]) >= 1:
        return False
    return True


def _pre(args):
    n, m = SLICE.get("n", 3), SLICE.get("m", 2)
    hi = SLICE.get("codes", 4)          # codes 0..hi-1 (3 = the invalid call site)
    kmax = SLICE.get("kmax", 2)         # 1: only add/remove, 2: add/remove/exists
    fixed = SLICE.get("kinds")          # optional fixed kind pattern
    prefix = SLICE.get("prefix") or ([SLICE["first"]] if SLICE.get("first") else [])
    for i in range(n):
        k, l = args[5 * i], args[5 * i + 1]
        if not (0 <= k <= kmax):
            return False
        if fixed is not None and k != fixed[i]:
            return False
        if not (0 <= l <= m):
            return False
        if i < len(prefix):
            if k != prefix[i][0] or l != len(prefix[i][1]):
                return False
        for j in range(3):
            if j < l:
                c = args[5 * i + 2 + j]
                if not (0 <= c < hi):
                    return False
                if i < len(prefix) and c != prefix[i][1][j]:
                    return False
    return True


def _paths_of(args):
    n = SLICE.get("n", 3)
    kinds, paths = [], []
    for i in range(n):
        l = args[5 * i + 1]
        kinds.append(args[5 * i])
        p = []
        for j in range(3):
            if j < l:
                p.append(args[5 * i + 2 + j])
        paths.append(p)
    return kinds, paths


def check_history(k0: int, l0: int, a0: int, b0: int, c0: int, k1: int, l1: int, a1: int, b1: int, c1: int,
                  k2: int, l2: int, a2: int, b2: int, c2: int, k3: int, l3: int, a3: int, b3: int, c3: int,
                  k4: int, l4: int, a4: int, b4: int, c4: int) -> bool:
    """
    pre: _pre((k0, l0, a0, b0, c0, k1, l1, a1, b1, c1, k2, l2, a2, b2, c2, k3, l3, a3, b3, c3, k4, l4, a4, b4, c4))
    post: _
    """
    kinds, paths = _paths_of((k0, l0, a0, b0, c0, k1, l1, a1, b1, c1, k2, l2, a2, b2, c2, k3, l3, a3, b3, c3,
                              k4, l4, a4, b4, c4))
    return history_ok(kinds, paths)


def check_history_reach(k0: int, l0: int, a0: int, b0: int, c0: int, k1: int, l1: int, a1: int, b1: int, c1: int,
                        k2: int, l2: int, a2: int, b2: int, c2: int, k3: int, l3: int, a3: int, b3: int, c3: int,
                        k4: int, l4: int, a4: int, b4: int, c4: int) -> bool:
    """
    pre: _pre((k0, l0, a0, b0, c0, k1, l1, a1, b1, c1, k2, l2, a2, b2, c2, k3, l3, a3, b3, c3, k4, l4, a4, b4, c4))
    post: _
    """
    kinds, paths = _paths_of((k0, l0, a0, b0, c0, k1, l1, a1, b1, c1, k2, l2, a2, b2, c2, k3, l3, a3, b3, c3,
                              k4, l4, a4, b4, c4))
    return history_ok(kinds, paths, reach=1)


# ---- CallSite / CallPath kernels with symbolic ids -------------------------------------------
def check_callsite(a1: int, a2: int, a3: int, b1: int, b2: int, b3: int) -> bool:
    """
    post: _
    """
    x, y = CallSite(a1, a2, a3), CallSite(b1, b2, b3)
    eq = (x == y)
    if eq != (a1 == b1 and a2 == b2 and a3 == b3):
        return fail("callsite-eq", a=[a1, a2, a3], b=[b1, b2, b3])
    if eq and x.to_tuple() != y.to_tuple():
        return fail("callsite-eq-tuple", a=[a1, a2, a3], b=[b1, b2, b3])
    if (x < y) and (y < x):
        return fail("callsite-lt-asym", a=[a1, a2, a3], b=[b1, b2, b3])
    if x.has_negative() != (a1 < 0 or a2 < 0 or a3 < 0):
        return fail("callsite-negative", a=[a1, a2, a3], b=[b1, b2, b3])
    return True


def check_callsite_hash(a1: int, a2: int, a3: int, b1: int, b2: int, b3: int) -> bool:
    """
    pre: -1 <= a1 <= 1 and -1 <= a2 <= 1 and -1 <= a3 <= 1
    pre: a1 == b1 and a2 == b2 and a3 == b3
    post: _
    """
    if hash(CallSite(a1, a2, a3)) != hash(CallSite(b1, b2, b3)):
        return fail("callsite-hash", a=[a1, a2, a3], b=[b1, b2, b3])
    return True


def count_cycles_ref(pairs):
    seen, n = [], 0
    for (a, b) in pairs:
        if b in seen:
            n += 1
        seen.append(a)
        seen.append(b)
    return n


def check_count_cycles(i0: int, i1: int, i2: int, i3: int, i4: int, i5: int, i6: int, i7: int) -> bool:
    """
    post: _
    """
    ids = [i0, i1, i2, i3, i4, i5, i6, i7][:2 * SLICE.get("n", 3)]
    pairs = [(ids[2 * i], ids[2 * i + 1]) for i in range(len(ids) // 2)]
    cp = CallPath(tuple(CallSite(a, 7, b) for (a, b) in pairs))
    got = cp.count_cycles()
    want = count_cycles_ref(pairs)
    if got != want:
        return fail("count-cycles", ids=ids, got=got, want=want)
    if got < 0 or got > len(pairs):
        return fail("count-cycles-range", ids=ids, got=got)
    return True


# ---- native warm-up / smoke test --------------------------------------------------------------
# warm-up only: results are not asserted here (a defect in lian must surface as a counterexample, not an import error)
history_ok([0, 2, 1], [[0, 1], [0, 1], [0, 1]])
check_callsite(1, 2, 3, 1, 2, 3)
check_count_cycles(1, 2, 2, 1, 1, 3, 0, 0)


def replay(func, cex):
    """Re-run the recorded arguments natively on the real classes."""
    import vlib.xh as xh
    xh._cex_seen.clear()
    if func in ("check_history", "check_history_reach"):
        ok = history_ok(cex["kinds"], cex["paths"])
        hist = [["add", "remove", "exists"][k] + str(p) for k, p in zip(cex["kinds"], cex["paths"])]
        obs = xh._cex_seen[-1] if xh._cex_seen else None
        return {"violated": not ok, "observed": obs, "what": "history " + "; ".join(hist) +
                (f" -> {obs['kind']} differs from the maximal-path model at step {obs['step']}" if obs else ""),
                "fingerprint": "history:" + ";".join(hist)}
    if func in ("check_callsite", "check_callsite_hash"):
        f = globals()[func]
        ok = f(*cex["a"], *cex["b"])
        return {"violated": not ok, "what": f"{cex['kind']} a={cex['a']} b={cex['b']}",
                "fingerprint": f"{cex['kind']}:{cex['a']}:{cex['b']}"}
    if func == "check_count_cycles":
        xh.SLICE["n"] = len(cex["ids"]) // 2
        ok = check_count_cycles(*(list(cex["ids"]) + [0] * 8)[:8])
        return {"violated": not ok, "what": f"count_cycles ids={cex['ids']}", "fingerprint": f"cc:{cex['ids']}"}
    raise ValueError(func)
