"""C15 harnesses: util.LRUCache and the GeneralLoader state machine (real code) over the pandas stand-in with
in-memory files; native replay uses real pandas and real feather files in a scratch directory."""
import os
import shutil
import tempfile

from vlib import common
from vlib.xh import SLICE, fail

common.setup_lian()
import lian.util.data_model as dm_mod  # noqa: E402
import lian.util.loader as ld_mod  # noqa: E402
from lian.config import config as lian_config  # noqa: E402
from lian.util.util import LRUCache  # noqa: E402
from vlib.stubs import fakepandas  # noqa: E402

REAL_PD, REAL_NP, REAL_OS = dm_mod.pd, dm_mod.np, ld_mod.os
REAL_MAX_ROWS = lian_config.MAX_ROWS


def use_stub(on):
    dm_mod.pd = fakepandas.pd if on else REAL_PD
    dm_mod.np = fakepandas.np if on else REAL_NP
    ld_mod.os = fakepandas.OsShim() if on else REAL_OS
    if on:
        fakepandas.reset_files()


# ---- (i) LRUCache ----------------------------------------------------------------------------------------
def lru_history(cap, ops):
    """ops: list of (kind, key, val): 0 put, 1 get, 2 remove, 3 contain.  Model: list of [key, val], LRU first."""
    c = LRUCache(cap)
    model = []
    for i, (k, key, val) in enumerate(ops):
        if k == 0:
            c.put(key, val)
            model = [e for e in model if e[0] != key]
            model.append([key, val])
            if len(model) > cap:
                model.pop(0)
        elif k == 1:
            got = c.get(key)
            want = None
            for e in model:
                if e[0] == key:
                    want = e[1]
            if got != want:
                return f"step {i}: get({key}) = {got}, model says {want}"
            if want is not None:
                model = [e for e in model if e[0] != key] + [[key, want]]
        elif k == 2:
            c.remove(key)
            model = [e for e in model if e[0] != key]
        else:
            got = c.contain(key)
            want = any(e[0] == key for e in model)
            if bool(got) != want:
                return f"step {i}: contain({key}) = {got}, model says {want}"
        if len(c.cache) != len(model) or len(model) > cap:
            return f"step {i}: size {len(c.cache)} != model {len(model)} (capacity {cap})"
        # eviction order as visible through the linked list
        node, order = c.head.next, []
        while node is not c.tail:
            order.append(node._id)
            node = node.next
            if len(order) > cap + 1:
                return f"step {i}: linked list longer than capacity"
        if order != [e[0] for e in model]:
            return f"step {i}: recency order {order} != model {[e[0] for e in model]}"
    return None


def _lru_ops(args):
    n = SLICE.get("n", 4)
    return [(args[3 * i], args[3 * i + 1], args[3 * i + 2]) for i in range(n)]


def _lru_pre(cap, args):
    if not (1 <= cap <= 3):
        return False
    if SLICE.get("cap") is not None and cap != SLICE["cap"]:
        return False
    fk = SLICE.get("first_kind")
    for i, (k, key, val) in enumerate(_lru_ops(args)):
        if not (0 <= k <= 3 and 1 <= key <= SLICE.get("keys", 3) and 1 <= val <= SLICE.get("vals", 2)):
            return False
        if i == 0 and fk is not None and k != fk:
            return False
    return True


def check_lru(cap: int, k0: int, x0: int, v0: int, k1: int, x1: int, v1: int, k2: int, x2: int, v2: int,
              k3: int, x3: int, v3: int, k4: int, x4: int, v4: int, k5: int, x5: int, v5: int) -> bool:
    """
    pre: _lru_pre(cap, (k0, x0, v0, k1, x1, v1, k2, x2, v2, k3, x3, v3, k4, x4, v4, k5, x5, v5))
    post: _
    """
    ops = _lru_ops((k0, x0, v0, k1, x1, v1, k2, x2, v2, k3, x3, v3, k4, x4, v4, k5, x5, v5))
    why = lru_history(cap, ops)
    if why:
        return fail("lru", cap=cap, ops=ops, why=why)
    return True


def check_lru_reach(cap: int, k0: int, x0: int, v0: int, k1: int, x1: int, v1: int, k2: int, x2: int, v2: int,
                    k3: int, x3: int, v3: int, k4: int, x4: int, v4: int, k5: int, x5: int, v5: int) -> bool:
    """
    pre: _lru_pre(cap, (k0, x0, v0, k1, x1, v1, k2, x2, v2, k3, x3, v3, k4, x4, v4, k5, x5, v5))
    post: _
    """
    ops = _lru_ops((k0, x0, v0, k1, x1, v1, k2, x2, v2, k3, x3, v3, k4, x4, v4, k5, x5, v5))
    lru_history(cap, ops)
    return not (ops[0][0] == 0 and ops[1][0] == 1)


# ---- (ii) GeneralLoader families ---------------------------------------------------------------------------
class Family:
    name = ""

    def make(self, base, icap, bcap):
        raise NotImplementedError

    def content(self, xs):
        """content object to save, from a list of ints."""
        raise NotImplementedError

    def norm(self, got):
        """what get returned -> canonical list."""
        raise NotImplementedError

    def want(self, xs):
        raise NotImplementedError


class UnitLevelFamily(Family):
    name = "UnitLevelLoader"

    def make(self, base, icap, bcap):
        return ld_mod.UnitLevelLoader(None, ["unit_id", "x"], base, icap, bcap)

    def content(self, xs):
        return [{"x": x} for x in xs]

    def norm(self, got):
        if got is None:
            return []
        if isinstance(got, list):
            return [r["x"] for r in got]
        return [_num(r.x) for r in got]

    def want(self, xs):
        return list(xs)


class AvailFamily(Family):
    """ScopeIDToAvailableScopeIDsLoader: content {scope_id: set(ids)}; here scope i+1 -> {x_i}."""
    name = "ScopeIDToAvailableScopeIDsLoader"

    def make(self, base, icap, bcap):
        return ld_mod.ScopeIDToAvailableScopeIDsLoader(None, ["unit_id", "scope_id", "available_scope_ids"], base, icap, bcap)

    def content(self, xs):
        return {i + 1: {x} for i, x in enumerate(xs)}

    def norm(self, got):
        if got is None or (isinstance(got, list) and not got):
            return []
        return [[int(k), sorted(_num(v) for v in vs)] for k, vs in sorted(got.items())]

    def want(self, xs):
        return [[i + 1, [x]] for i, x in enumerate(xs)]


class MembersFamily(Family):
    """ClassIDToMembersLoader: content {field_name: set(states)}; field f<i> -> {x_i}; item key column is class_id."""
    name = "ClassIDToMembersLoader"

    def make(self, base, icap, bcap):
        # the real class with the schema the pipeline passes (Loader.__init__: ClassIDToMembersLoader(options, [], ...))
        return ld_mod.ClassIDToMembersLoader(None, [], base, icap, bcap)

    def content(self, xs):
        return {f"f{i}": {x} for i, x in enumerate(xs)}

    def norm(self, got):
        if isinstance(got, str):
            return got
        if got is None or (isinstance(got, list) and not got):
            return []
        return [[k, sorted(_num(v) for v in vs)] for k, vs in sorted(got.items())]

    def want(self, xs):
        return [[f"f{i}", [x]] for i, x in enumerate(xs)]


FAMILIES = {"unit": UnitLevelFamily(), "avail": AvailFamily(), "members": MembersFamily()}


def _get(ld, key):
    """a read that ends the process (util.error_and_quit) is a read that does not return what was saved"""
    try:
        return ld.get_item_by_id(key)
    except SystemExit:
        return "process terminated by error_and_quit"


def _num(v):
    try:
        import numpy
        if isinstance(v, numpy.generic):
            v = v.item()
    except Exception:
        pass
    if isinstance(v, float) and v == int(v):
        return int(v)
    return v


def loader_history(fam_name, base, icap, bcap, max_rows, ops, fail_write_at=-1, stub=True):
    """ops: (kind, id, len, x0, x1); kinds 0 save, 1 get, 2 export, 3 checkpoint (export, export_indexing, fresh loader
    restored from the files).  Returns None or a description of the first disagreement."""
    fam = FAMILIES[fam_name]
    lian_config.MAX_ROWS = max_rows
    ld = fam.make(base, icap, bcap)
    model = {}
    removed = set()
    n_writes_before = 0
    for i, (k, _id, ln, x0, x1) in enumerate(ops):
        if k == 0:
            xs = [x0, x1][:ln]
            ld.save(_id, fam.content(xs))
            model[_id] = fam.want(xs)
            removed.discard(_id)
        elif k == 1:
            got = fam.norm(_get(ld, _id))
            want = model.get(_id, [])
            if got != want:
                return f"step {i}: get({_id}) = {got} but the content most recently saved is {want}"
        elif k == 2:
            ld.export()
        elif k == 4:
            try:
                ld.remove_unit_id(_id)
            except SystemExit:
                return f"step {i}: remove_unit_id({_id}) ended the process"
            model.pop(_id, None)
            removed.add(_id)
            got = fam.norm(_get(ld, _id))
            if got != []:
                return f"step {i}: get({_id}) = {got} right after remove_unit_id({_id})"
        else:
            ld.export()
            ld.export_indexing()
            ld = fam.make(base, icap, bcap)
            ld.restore_indexing()
            for key in sorted(model):
                got = fam.norm(_get(ld, key))
                if got != model[key]:
                    return f"step {i}: after export + restore into a fresh loader get({key}) = {got}, saved {model[key]}"
    for key in sorted(model):
        got = fam.norm(_get(ld, key))
        if got != model[key]:
            return f"end: get({key}) = {got} but the content most recently saved is {model[key]}"
    for key in sorted(removed):
        got = fam.norm(_get(ld, key))
        if got != []:
            return f"end: get({key}) = {got} although the item was removed and not saved again"
    # epilogue (the same for every history): what a later phase does with the workspace - restore, add one more item,
    # export again, restore again.  Everything saved so far must still come back.
    for phase in (1, 2):
        ld.export()
        ld.export_indexing()
        ld = fam.make(base, icap, bcap)
        ld.restore_indexing()
        for key in sorted(model):
            got = fam.norm(_get(ld, key))
            if got != model[key]:
                return (f"epilogue {phase}: after export + restore into a fresh loader get({key}) = {got}, "
                        f"saved {model[key]}")
        if phase == 1:
            ld.save(9, fam.content([4]))
            model[9] = fam.want([4])
    return None


def _ops(args):
    n = SLICE.get("n", 3)
    return [tuple(args[5 * i:5 * i + 5]) for i in range(n)]


def _ld_pre(args):
    ids = SLICE.get("ids", 2)
    lens = SLICE.get("lens", [1, 2])
    prefix = SLICE.get("prefix", [])
    for i, (k, _id, ln, x0, x1) in enumerate(_ops(args)):
        if not (0 <= k <= (4 if SLICE.get("with_remove") else 3)):
            return False
        if i < len(prefix) and k != prefix[i]:
            return False
        if k in (0, 1, 4):
            if not (1 <= _id <= ids):
                return False
        elif _id != 1:
            return False
        if k == 0:
            if ln not in lens:
                return False
            xd = SLICE.get("xdom")
            if xd is not None:
                if ln >= 1 and not (xd[0] <= x0 <= xd[1]):
                    return False
                if ln >= 2 and not (xd[0] <= x1 <= xd[1]):
                    return False
        elif ln != 0:
            return False
    return True


def check_loader(k0: int, i0: int, l0: int, x0: int, y0: int, k1: int, i1: int, l1: int, x1: int, y1: int,
                 k2: int, i2: int, l2: int, x2: int, y2: int, k3: int, i3: int, l3: int, x3: int, y3: int,
                 k4: int, i4: int, l4: int, x4: int, y4: int) -> bool:
    """
    pre: _ld_pre((k0, i0, l0, x0, y0, k1, i1, l1, x1, y1, k2, i2, l2, x2, y2, k3, i3, l3, x3, y3, k4, i4, l4, x4, y4))
    post: _
    """
    ops = _ops((k0, i0, l0, x0, y0, k1, i1, l1, x1, y1, k2, i2, l2, x2, y2, k3, i3, l3, x3, y3, k4, i4, l4, x4, y4))
    icap, bcap, mr = SLICE["caps"]
    use_stub(True)
    try:
        why = loader_history(SLICE["family"], "/mem/t", icap, bcap, mr, ops)
    finally:
        use_stub(False)
        lian_config.MAX_ROWS = REAL_MAX_ROWS
    if why:
        return fail("loader", family=SLICE["family"], caps=[icap, bcap, mr], ops=ops, why=why)
    return True


def check_loader_reach(k0: int, i0: int, l0: int, x0: int, y0: int, k1: int, i1: int, l1: int, x1: int, y1: int,
                       k2: int, i2: int, l2: int, x2: int, y2: int, k3: int, i3: int, l3: int, x3: int, y3: int,
                       k4: int, i4: int, l4: int, x4: int, y4: int) -> bool:
    """
    pre: _ld_pre((k0, i0, l0, x0, y0, k1, i1, l1, x1, y1, k2, i2, l2, x2, y2, k3, i3, l3, x3, y3, k4, i4, l4, x4, y4))
    post: _
    """
    ops = _ops((k0, i0, l0, x0, y0, k1, i1, l1, x1, y1, k2, i2, l2, x2, y2, k3, i3, l3, x3, y3, k4, i4, l4, x4, y4))
    icap, bcap, mr = SLICE["caps"]
    use_stub(True)
    try:
        why = loader_history(SLICE["family"], "/mem/t", icap, bcap, mr, ops)
    finally:
        use_stub(False)
        lian_config.MAX_ROWS = REAL_MAX_ROWS
    return not (why is None and ops[0][0] == 0 and ops[-1][0] == 3)


# ---- (iii) fault step: a failing bundle write must be visible to the caller ---------------------------------
def fault_history(fam_name, base, icap, bcap, max_rows, n_saves, x, stub=True):
    """save n items, then export() while the bundle write fails.  Returns description if the failure is silent."""
    fam = FAMILIES[fam_name]
    lian_config.MAX_ROWS = max_rows
    ld = fam.make(base, icap, bcap)
    for i in range(n_saves):
        ld.save(i + 1, fam.content([x + i]))
    reported = False
    try:
        r = ld.export()
        if r is False:
            reported = True
    except Exception:
        reported = True
    return reported, ld


def describe_ops(ops):
    out = []
    for (k, _id, ln, x0, x1) in ops:
        if k == 0:
            out.append(f"save({_id},{[x0, x1][:ln]})")
        elif k == 1:
            out.append(f"get({_id})")
        elif k == 2:
            out.append("export()")
        elif k == 4:
            out.append(f"remove_unit_id({_id})")
        else:
            out.append("export();export_indexing();restore-into-fresh-loader")
    return "; ".join(out)


def replay(func, cex):
    use_stub(False)
    if func.startswith("check_lru"):
        why = lru_history(cex["cap"], [tuple(o) for o in cex["ops"]])
        return {"violated": bool(why), "observed": why, "what": f"LRUCache(cap={cex['cap']}) ops={cex['ops']} -> {why}",
                "fingerprint": "lru:" + str(cex["ops"])}
    if func.startswith("check_loader"):
        base = tempfile.mkdtemp(prefix="lian-verif-c15-")
        try:
            ops = [tuple(o) for o in cex["ops"]]
            icap, bcap, mr = cex["caps"]
            try:
                why = loader_history(cex["family"], os.path.join(base, "t"), icap, bcap, mr, ops, stub=False)
            except Exception as e:  # noqa
                why = f"raised {type(e).__name__}: {e}"
        finally:
            lian_config.MAX_ROWS = REAL_MAX_ROWS
            shutil.rmtree(base, ignore_errors=True)
        kinds = "".join("SGECR"[o[0]] for o in ops)
        return {"violated": bool(why), "observed": why,
                "what": f"{cex['family']} caps(item,bundle,MAX_ROWS)={cex['caps']}: {describe_ops(ops)} -> {why}",
                "fingerprint": f"loader:{cex['family']}:{kinds}"}
    raise ValueError(func)


# warm-up
lru_history(2, [(0, 1, 1), (0, 2, 1), (1, 1, 0), (0, 3, 2), (3, 2, 0)])      # executed, not asserted
use_stub(True)
try:
    loader_history("unit", "/mem/w", 1, 1, 1, [(0, 1, 1, 5, 0), (1, 1, 0, 0, 0), (3, 1, 0, 0, 0)])
    loader_history("avail", "/mem/w2", 1, 1, 1, [(0, 1, 1, 5, 0), (1, 1, 0, 0, 0), (3, 1, 0, 0, 0)])
finally:
    use_stub(False)
    lian_config.MAX_ROWS = REAL_MAX_ROWS
