"""Engine T co-execution harnesses: CPython on the source and the reference GIR interpreter on lian's rows, symbolic entry
arguments.  The batch (programs + lian tables) is a JSON file prepared by the check from a real lian run."""
import json

from vlib.gir_interp import GirError, Interp, OutOfVocabulary
from vlib.xh import SLICE, fail

BATCH = {"programs": []}
CODE = {}


def prepare(slice_):
    with open(slice_["batch"]) as f:
        BATCH.update(json.load(f))
    for i, p in enumerate(BATCH["programs"]):
        CODE[i] = compile(p["src"], p["name"], "exec")


def run_cpython(i, args):
    outs = []

    def out(*a):
        outs.append(a[0] if len(a) == 1 else tuple(a))
    ns = {"out": out}
    exec(CODE[i], ns)
    try:
        ret = ns["f"](*args)
        return outs, ret, None
    except (ArithmeticError, LookupError, TypeError, ValueError, AttributeError, NameError, RecursionError) as e:
        return outs, None, type(e).__name__


def run_gir(i, args, hooks=None):
    p = BATCH["programs"][i]
    it = Interp({"m": p["rows"]}, hooks=hooks)
    try:
        ret = it.call_entry("m", "f", args)
        return it.outs, ret, None
    except GirError as e:
        return it.outs, None, "GirError: " + str(e)
    except (ArithmeticError, LookupError, TypeError, ValueError, AttributeError, RecursionError) as e:
        return it.outs, None, type(e).__name__


def same(x, y):
    if isinstance(x, (list, tuple)) and isinstance(y, (list, tuple)):
        if len(x) != len(y):
            return False
        for u, v in zip(x, y):
            if not same(u, v):
                return False
        return True
    return x == y


def compare(i, args):
    o1, r1, e1 = run_cpython(i, args)
    o2, r2, e2 = run_gir(i, args)
    if (e1 is None) != (e2 is None):
        return f"CPython {'raises ' + e1 if e1 else 'returns ' + repr(r1)}, GIR {'fails: ' + e2 if e2 else 'returns ' + repr(r2)}"
    if not same(o1, o2):
        return f"outputs differ: CPython {o1!r}, GIR {o2!r}"
    if e1 is None and not same(r1, r2):
        return f"return values differ: CPython {r1!r}, GIR {r2!r}"
    return None


def in_bounds(i, a, b):
    bd = BATCH["programs"][i].get("bounds") or {}
    if "a" in bd and not (bd["a"][0] <= a <= bd["a"][1]):
        return False
    if "b" in bd and not (bd["b"][0] <= b <= bd["b"][1]):
        return False
    return True


def _pre(pidx, a, b):
    lo, hi = SLICE["range"]
    if not (lo <= pidx < hi):
        return False
    if pidx in SLICE.get("skip", ()):
        return False
    return in_bounds(pidx, a, b)


def check_equiv(pidx: int, a: int, b: int, c: bool) -> bool:
    """
    pre: _pre(pidx, a, b)
    post: _
    """
    why = compare(pidx, (a, b, c))
    if why:
        return fail("equiv", prog=BATCH["programs"][pidx]["name"], pidx=pidx, args=[a, b, c], why=why)
    return True


def check_equiv_reach(pidx: int, a: int, b: int, c: bool) -> bool:
    """
    pre: _pre(pidx, a, b)
    post: _
    """
    o1, r1, e1 = run_cpython(pidx, (a, b, c))
    o2, r2, e2 = run_gir(pidx, (a, b, c))
    return not (e1 is None and e2 is None and same(r1, r2))


def prescreen(batch_path):
    """Native: which programs can the interpreter execute at all (vocabulary), on a few concrete inputs."""
    prepare({"batch": batch_path})
    res = []
    for i, p in enumerate(BATCH["programs"]):
        status = "ok"
        for args in ((1, 2, True), (2, 1, False), (0, 0, False)):
            if not in_bounds(i, args[0], args[1]):
                continue
            try:
                it = Interp({"m": p["rows"]})
                it.call_entry("m", "f", args)
            except OutOfVocabulary as e:
                status = f"out-of-vocabulary: {e}"
                break
            except Exception:
                pass
        res.append(status)
    return res


def replay(func, cex):
    prepare({"batch": SLICE["batch"]}) if not BATCH["programs"] else None
    i = cex["pidx"]
    a, b, c = cex["args"]
    p = BATCH["programs"][i]
    if func.startswith("check_equiv"):
        why = compare(i, (a, b, bool(c)))
        return {"violated": bool(why), "observed": why,
                "what": f"program {p['name']} f({a}, {b}, {bool(c)}): {why}\n{p['src']}",
                "fingerprint": f"equiv:{p['name']}:{p.get('hash') or __import__('hashlib').sha256(p['src'].encode()).hexdigest()[:10]}"}
    raise ValueError(func)
