"""Engine T co-execution harnesses: CPython on the source and the reference GIR interpreter on lian's rows, symbolic entry
arguments.  The batch (programs + lian tables) is a JSON file prepared by the check from a real lian run."""
import json

from vlib.gir_interp import GirError, Interp, OutOfVocabulary
from vlib.xh import SLICE, fail

BATCH = {"programs": []}
CODE = {}


def prepare(slice_):
    with open(slice_["batch"]) as f:
        BATCH.update(json.load(f))
    for i, p in enumerate(BATCH["programs"]):
        CODE[i] = compile(p["src"], p["name"], "exec")
        by = {}
        for r in p.get("cfg", []):
            by.setdefault(r["method_id"], set()).add((r["src_stmt_id"], r["dst_stmt_id"]))
        p["_cfg"] = {m: frozenset(e) for m, e in by.items()}       # built natively, outside tracing


def run_cpython(i, args):
    outs = []

    def out(*a):
        outs.append(a[0] if len(a) == 1 else tuple(a))
    ns = {"out": out}
    exec(CODE[i], ns)
    try:
        ret = ns["f"](*args)
        return outs, ret, None
    except (ArithmeticError, LookupError, TypeError, ValueError, AttributeError, NameError, RecursionError) as e:
        return outs, None, type(e).__name__


def run_gir(i, args, hooks=None):
    p = BATCH["programs"][i]
    it = Interp({"m": p["rows"]}, hooks=hooks, fuel=2500)
    try:
        ret = it.call_entry("m", "f", args)
        return it.outs, ret, None
    except GirError as e:
        return it.outs, None, "GirError: " + str(e)
    except (ArithmeticError, LookupError, TypeError, ValueError, AttributeError, RecursionError) as e:
        return it.outs, None, type(e).__name__


def same(x, y):
    if isinstance(x, (list, tuple)) and isinstance(y, (list, tuple)):
        if len(x) != len(y):
            return False
        for u, v in zip(x, y):
            if not same(u, v):
                return False
        return True
    return x == y


def compare(i, args):
    o1, r1, e1 = run_cpython(i, args)
    o2, r2, e2 = run_gir(i, args)
    if (e1 is None) != (e2 is None):
        return f"CPython {'raises ' + e1 if e1 else 'returns ' + repr(r1)}, GIR {'fails: ' + e2 if e2 else 'returns ' + repr(r2)}"
    if not same(o1, o2):
        return f"outputs differ: CPython {o1!r}, GIR {o2!r}"
    if e1 is None and not same(r1, r2):
        return f"return values differ: CPython {r1!r}, GIR {r2!r}"
    return None


def in_bounds(i, a, b):
    bd = BATCH["programs"][i].get("bounds") or {}
    if "a" in bd and not (bd["a"][0] <= a <= bd["a"][1]):
        return False
    if "b" in bd and not (bd["b"][0] <= b <= bd["b"][1]):
        return False
    return True


def _pre(pidx, a, b):
    lo, hi = SLICE["range"]
    if not (lo <= pidx < hi):
        return False
    if pidx in SLICE.get("skip", ()):
        return False
    return in_bounds(pidx, a, b)


def check_equiv(pidx: int, a: int, b: int, c: bool) -> bool:
    """
    pre: _pre(pidx, a, b)
    post: _
    """
    why = compare(pidx, (a, b, c))
    if why:
        return fail("equiv", prog=BATCH["programs"][pidx]["name"], pidx=pidx, args=[a, b, c], why=why)
    return True


def check_equiv_reach(pidx: int, a: int, b: int, c: bool) -> bool:
    """
    pre: _pre(pidx, a, b)
    post: _
    """
    o1, r1, e1 = run_cpython(pidx, (a, b, c))
    o2, r2, e2 = run_gir(pidx, (a, b, c))
    return not (e1 is None and e2 is None and same(r1, r2))


def prescreen(batch_path):
    """Native: which programs can the interpreter execute at all (vocabulary), on a few concrete inputs."""
    prepare({"batch": batch_path})
    res = []
    for i, p in enumerate(BATCH["programs"]):
        status = "ok"
        for args in ((1, 2, True), (2, 1, False), (0, 0, False)):
            if not in_bounds(i, args[0], args[1]):
                continue
            try:
                it = Interp({"m": p["rows"]})
                it.call_entry("m", "f", args)
            except OutOfVocabulary as e:
                status = f"out-of-vocabulary: {e}"
                break
            except Exception:
                pass
        res.append(status)
    return res


def replay(func, cex):
    prepare({"batch": SLICE["batch"]}) if not BATCH["programs"] else None
    i = cex["pidx"]
    a, b, c = cex["args"]
    p = BATCH["programs"][i]
    if func.startswith("check_equiv"):
        why = compare(i, (a, b, bool(c)))
        return {"violated": bool(why), "observed": why,
                "what": f"program {p['name']} f({a}, {b}, {bool(c)}): {why}\n{p['src']}",
                "fingerprint": f"equiv:{p['name']}:{p.get('hash') or __import__('hashlib').sha256(p['src'].encode()).hexdigest()[:10]}"}
    raise ValueError(func)


# ---- C04: every execution is a path in the CFG -------------------------------------------------------------------
def cfg_of(i):
    p = BATCH["programs"][i]
    if "_cfg" not in p:
        by = {}
        for r in p.get("cfg", []):
            by.setdefault(r["method_id"], set()).add((r["src_stmt_id"], r["dst_stmt_id"]))
        p["_cfg"] = by
    return p["_cfg"]


def trace_gir(i, args):
    """{activation id: (method id, [stmt ids], finished)} in execution order."""
    acts = {}
    order = []

    def on_stmt(act, row):
        if act.id not in acts:
            acts[act.id] = [act.method_id, [], False]
            order.append(act.id)
        acts[act.id][1].append(row["stmt_id"])

    def on_exit(act, sig):
        if act.id in acts:
            acts[act.id][2] = True
    outs, ret, err = run_gir(i, args, hooks={"on_stmt": on_stmt, "on_exit": on_exit})
    return [acts[k] for k in order], err


def cfg_violation(i, args):
    cfg = cfg_of(i)
    traces, err = trace_gir(i, args)
    for method_id, stmts, finished in traces:
        if method_id in (0, -2):
            continue
        edges = cfg.get(method_id)
        if edges is None:
            return f"method {method_id} executes {stmts[:6]} but has no control-flow graph"
        first = stmts[0]
        if any(d == first for (s, d) in edges):
            return f"method {method_id}: the first executed statement {first} is not an entry node (it has predecessors)"
        if not any(s == first for (s, d) in edges) and len(stmts) > 1:
            return f"method {method_id}: the first executed statement {first} is not in the graph"
        for x, y in zip(stmts, stmts[1:]):
            if (x, y) not in edges:
                return f"method {method_id}: statement {y} executes right after {x} but the graph has no edge {x}->{y}"
        if finished and (stmts[-1], -1) not in edges:
            return f"method {method_id}: execution leaves the method after statement {stmts[-1]} but there is no edge to the exit"
    return None


def check_cfg(pidx: int, a: int, b: int, c: bool) -> bool:
    """
    pre: _pre(pidx, a, b)
    post: _
    """
    why = cfg_violation(pidx, (a, b, c))
    if why:
        return fail("cfg", prog=BATCH["programs"][pidx]["name"], pidx=pidx, args=[a, b, c], why=why)
    return True


def check_cfg_reach(pidx: int, a: int, b: int, c: bool) -> bool:
    """
    pre: _pre(pidx, a, b)
    post: _
    """
    traces, err = trace_gir(pidx, (a, b, c))
    return not (len(traces) >= 1 and len(traces[-1][1]) >= 3)


def cfg_static(i):
    """Native: no node of a method's graph belongs to another method; every executed-able statement of the method that
    some explored path reached is a node (checked dynamically)."""
    p = BATCH["programs"][i]
    from vlib.gir_interp import Unit
    u = Unit(p["rows"])
    owner = {}

    def walk(block, m):
        for r in u.children.get(block, []):
            owner[r["stmt_id"]] = m
            for k, v in r.items():
                if k in ("body", "then_body", "else_body", "parameters", "init_body", "update_body", "condition_prebody",
                         "catch_body", "final_body") and isinstance(v, int):
                    walk(v, r["stmt_id"] if r["operation"] == "method_decl" else m)
            if r["operation"] == "class_decl":
                for k in ("methods", "fields"):
                    if isinstance(r.get(k), int):
                        walk(r[k], m)
    for r in u.top:
        if r["operation"] == "method_decl":
            owner[r["stmt_id"]] = r["stmt_id"]
            for k in ("parameters", "body"):
                if isinstance(r.get(k), int):
                    walk(r[k], r["stmt_id"])
        elif r["operation"] == "class_decl":
            for k in ("methods", "fields"):
                if isinstance(r.get(k), int):
                    walk(r[k], 0)
    bad = []
    for m, edges in cfg_of(i).items():
        for (s, d) in edges:
            for x in (s, d):
                if x > 0 and x in owner and owner[x] != m and x != m:
                    bad.append(f"statement {x} of method {owner[x]} is a node of the graph of method {m}")
    return bad[:3]


_replay_equiv = replay


def replay(func, cex):   # noqa: F811
    if func.startswith("check_cfg"):
        prepare({"batch": SLICE["batch"]}) if not BATCH["programs"] else None
        i = cex["pidx"]
        a, b, c = cex["args"]
        p = BATCH["programs"][i]
        why = cfg_violation(i, (a, b, bool(c)))
        kind = (why or "").split(":")[-1].strip().split(" ")[0:3]
        return {"violated": bool(why), "observed": why, "what": f"program {p['name']} f({a}, {b}, {bool(c)}): {why}\n{p['src']}",
                "fingerprint": f"cfg:{p['name']}:{p.get('hash') or __import__('hashlib').sha256(p['src'].encode()).hexdigest()[:10]}"}
    return _replay_equiv(func, cex)
