"""Engine T co-execution harnesses: CPython on the source and the reference GIR interpreter on lian's rows, symbolic entry
arguments.  The batch (programs + lian tables) is a JSON file prepared by the check from a real lian run."""
import json

from vlib.gir_interp import GirError, Interp, OutOfVocabulary
from vlib.xh import SLICE, fail

BATCH = {"programs": []}
CODE = {}


def prepare(slice_):
    with open(slice_["batch"]) as f:
        BATCH.update(json.load(f))
    for i, p in enumerate(BATCH["programs"]):
        CODE[i] = compile(p["src"], p["name"], "exec")
        by = {}
        for r in p.get("cfg", []):
            by.setdefault(r["method_id"], set()).add((r["src_stmt_id"], r["dst_stmt_id"]))
        p["_cfg"] = {m: frozenset(e) for m, e in by.items()}       # built natively, outside tracing


def units_of(p):
    """the program's own unit as module `m`, plus the other analysed files it imports (multi-file programs)"""
    u = {"m": p["rows"]}
    u.update(p.get("extra_rows") or {})
    return u


def run_cpython(i, args):
    outs = []

    def out(*a):
        outs.append(a[0] if len(a) == 1 else tuple(a))
    ns = {"out": out}
    exec(CODE[i], ns)
    try:
        ret = ns["f"](*args)
        return outs, ret, None
    except (ArithmeticError, LookupError, TypeError, ValueError, AttributeError, NameError, RecursionError) as e:
        return outs, None, type(e).__name__


def run_gir(i, args, hooks=None):
    p = BATCH["programs"][i]
    it = Interp(units_of(p), hooks=hooks, fuel=2500)
    try:
        ret = it.call_entry("m", "f", args)
        return it.outs, ret, None
    except GirError as e:
        return it.outs, None, "GirError: " + str(e)
    except OutOfVocabulary as e:
        if not BATCH.get("strict_vocabulary"):
            raise
        return it.outs, None, f"not executable: operation or operand column outside the shared vocabulary ({e})"
    except (ArithmeticError, LookupError, TypeError, ValueError, AttributeError, RecursionError) as e:
        return it.outs, None, type(e).__name__


def same(x, y):
    if isinstance(x, (list, tuple)) and isinstance(y, (list, tuple)):
        if len(x) != len(y):
            return False
        for u, v in zip(x, y):
            if not same(u, v):
                return False
        return True
    return x == y


def compare(i, args):
    o1, r1, e1 = run_cpython(i, args)
    o2, r2, e2 = run_gir(i, args)
    if (e1 is None) != (e2 is None):
        return f"CPython {'raises ' + e1 if e1 else 'returns ' + repr(r1)}, GIR {'fails: ' + e2 if e2 else 'returns ' + repr(r2)}"
    if not same(o1, o2):
        return f"outputs differ: CPython {o1!r}, GIR {o2!r}"
    if e1 is None and not same(r1, r2):
        return f"return values differ: CPython {r1!r}, GIR {r2!r}"
    return None


def in_bounds(i, a, b):
    bd = BATCH["programs"][i].get("bounds") or {}
    if "a" in bd and not (bd["a"][0] <= a <= bd["a"][1]):
        return False
    if "b" in bd and not (bd["b"][0] <= b <= bd["b"][1]):
        return False
    return True


def _pre(pidx, a, b):
    lo, hi = SLICE["range"]
    if not (lo <= pidx < hi):
        return False
    if pidx in SLICE.get("skip", ()):
        return False
    return in_bounds(pidx, a, b)


def check_equiv(pidx: int, a: int, b: int, c: bool) -> bool:
    """
    pre: _pre(pidx, a, b)
    post: _
    """
    why = compare(pidx, (a, b, c))
    if why:
        return fail("equiv", prog=BATCH["programs"][pidx]["name"], pidx=pidx, args=[a, b, c], why=why)
    return True


def check_equiv_reach(pidx: int, a: int, b: int, c: bool) -> bool:
    """
    pre: _pre(pidx, a, b)
    post: _
    """
    o1, r1, e1 = run_cpython(pidx, (a, b, c))
    o2, r2, e2 = run_gir(pidx, (a, b, c))
    return not (e1 is None and e2 is None and same(r1, r2))


def prescreen(batch_path):
    """Native: which programs can the interpreter execute at all (vocabulary), on a few concrete inputs."""
    prepare({"batch": batch_path})
    res = []
    for i, p in enumerate(BATCH["programs"]):
        status = "ok"
        if BATCH.get("strict_vocabulary"):
            res.append(status)
            continue
        for args in ((1, 2, True), (2, 1, False), (0, 0, False)):
            if not in_bounds(i, args[0], args[1]):
                continue
            try:
                it = Interp(units_of(p))
                it.call_entry("m", "f", args)
            except OutOfVocabulary as e:
                status = f"out-of-vocabulary: {e}"
                break
            except Exception:
                pass
        res.append(status)
    return res


def replay(func, cex):
    prepare({"batch": SLICE["batch"]}) if not BATCH["programs"] else None
    i = cex["pidx"]
    a, b, c = cex["args"]
    p = BATCH["programs"][i]
    if func.startswith("check_equiv"):
        why = compare(i, (a, b, bool(c)))
        return {"violated": bool(why), "observed": why,
                "what": f"program {p['name']} f({a}, {b}, {bool(c)}): {why}\n{p['src']}",
                "fingerprint": f"equiv:{p['name']}:{p.get('hash') or __import__('hashlib').sha256(p['src'].encode()).hexdigest()[:10]}"}
    raise ValueError(func)


# ---- C04: every execution is a path in the CFG -------------------------------------------------------------------
def cfg_of(i):
    p = BATCH["programs"][i]
    if "_cfg" not in p:
        by = {}
        for r in p.get("cfg", []):
            by.setdefault(r["method_id"], set()).add((r["src_stmt_id"], r["dst_stmt_id"]))
        p["_cfg"] = by
    return p["_cfg"]


def trace_gir(i, args):
    """{activation id: (method id, [stmt ids], finished)} in execution order."""
    acts = {}
    order = []

    def on_stmt(act, row):
        if act.id not in acts:
            acts[act.id] = [act.method_id, [], False]
            order.append(act.id)
        acts[act.id][1].append(row["stmt_id"])

    def on_exit(act, sig):
        if act.id in acts:
            acts[act.id][2] = True
    outs, ret, err = run_gir(i, args, hooks={"on_stmt": on_stmt, "on_exit": on_exit})
    return [acts[k] for k in order], err


def cfg_violation(i, args):
    cfg = cfg_of(i)
    traces, err = trace_gir(i, args)
    for method_id, stmts, finished in traces:
        if method_id in (0, -2):
            continue
        edges = cfg.get(method_id)
        if edges is None:
            return f"method {method_id} executes {stmts[:6]} but has no control-flow graph"
        first = stmts[0]
        if any(d == first for (s, d) in edges):
            return f"method {method_id}: the first executed statement {first} is not an entry node (it has predecessors)"
        if not any(s == first for (s, d) in edges) and len(stmts) > 1:
            return f"method {method_id}: the first executed statement {first} is not in the graph"
        for x, y in zip(stmts, stmts[1:]):
            if (x, y) not in edges:
                return f"method {method_id}: statement {y} executes right after {x} but the graph has no edge {x}->{y}"
        if finished and (stmts[-1], -1) not in edges:
            return f"method {method_id}: execution leaves the method after statement {stmts[-1]} but there is no edge to the exit"
    return None


def check_cfg(pidx: int, a: int, b: int, c: bool) -> bool:
    """
    pre: _pre(pidx, a, b)
    post: _
    """
    why = cfg_violation(pidx, (a, b, c))
    if why:
        return fail("cfg", prog=BATCH["programs"][pidx]["name"], pidx=pidx, args=[a, b, c], why=why)
    return True


def check_cfg_reach(pidx: int, a: int, b: int, c: bool) -> bool:
    """
    pre: _pre(pidx, a, b)
    post: _
    """
    traces, err = trace_gir(pidx, (a, b, c))
    return not (len(traces) >= 1 and len(traces[-1][1]) >= 3)


def cfg_static(i):
    """Native: no node of a method's graph belongs to another method; every executed-able statement of the method that
    some explored path reached is a node (checked dynamically)."""
    p = BATCH["programs"][i]
    from vlib.gir_interp import Unit
    u = Unit(p["rows"])
    owner = {}

    def walk(block, m):
        for r in u.children.get(block, []):
            owner[r["stmt_id"]] = m
            for k, v in r.items():
                if k in ("body", "then_body", "else_body", "parameters", "init_body", "update_body", "condition_prebody",
                         "catch_body", "final_body") and isinstance(v, int):
                    walk(v, r["stmt_id"] if r["operation"] == "method_decl" else m)
            if r["operation"] == "class_decl":
                for k in ("methods", "fields"):
                    if isinstance(r.get(k), int):
                        walk(r[k], m)
    for r in u.top:
        if r["operation"] == "method_decl":
            owner[r["stmt_id"]] = r["stmt_id"]
            for k in ("parameters", "body"):
                if isinstance(r.get(k), int):
                    walk(r[k], r["stmt_id"])
        elif r["operation"] == "class_decl":
            for k in ("methods", "fields"):
                if isinstance(r.get(k), int):
                    walk(r[k], 0)
    bad = []
    for m, edges in cfg_of(i).items():
        for (s, d) in edges:
            for x in (s, d):
                if x > 0 and x in owner and owner[x] != m and x != m:
                    bad.append(f"statement {x} of method {owner[x]} is a node of the graph of method {m}")
    return bad[:3]


_replay_equiv = replay


def replay(func, cex):   # noqa: F811
    if func.startswith("check_cfg"):
        prepare({"batch": SLICE["batch"]}) if not BATCH["programs"] else None
        i = cex["pidx"]
        a, b, c = cex["args"]
        p = BATCH["programs"][i]
        why = cfg_violation(i, (a, b, bool(c)))
        kind = (why or "").split(":")[-1].strip().split(" ")[0:3]
        return {"violated": bool(why), "observed": why, "what": f"program {p['name']} f({a}, {b}, {bool(c)}): {why}\n{p['src']}",
                "fingerprint": f"cfg:{p['name']}:{p.get('hash') or __import__('hashlib').sha256(p['src'].encode()).hexdigest()[:10]}"}
    return _replay_equiv(func, cex)


# ---- C06: reaching definitions ---------------------------------------------------------------------------------------
def rd_tables(i):
    """(stmt -> set of def stmt ids lian lets reach it (union over contexts), set of analysed stmts) - built natively."""
    p = BATCH["programs"][i]
    if "_rd" not in p:
        reach, analysed = {}, set()
        for r in p.get("status", []):
            sid = r["stmt_id"]
            analysed.add(sid)
            bits = r.get("in_symbol_bits")
            if isinstance(bits, str):
                bits = json.loads(bits)
            reach.setdefault(sid, set()).update(d["stmt_id"] for d in (bits or []))
        p["_rd"] = ({k: frozenset(v) for k, v in reach.items()}, frozenset(analysed))
    return p["_rd"]


def rd_violation(i, args):
    reach, analysed = rd_tables(i)
    writers = {}
    problems = []
    iters = {}

    def on_def(act, row, name, value):
        writers[(act.id, name)] = row["stmt_id"]

    def on_use(act, owner, name):
        if owner is not act or problems:
            return                      # closure / module variables: not a local definition of this activation
        cur = getattr(act, "cur", None)
        if cur is None:
            return
        d = writers.get((act.id, name))
        if d is None:
            return
        u = cur["stmt_id"]
        if u == d and cur["operation"] == "parameter_decl":
            return
        if u not in analysed:
            return                      # reported by the coverage obligation, not here
        if d not in reach.get(u, ()):
            problems.append(f"`{name}` used at statement {u} ({cur['operation']}) was last written at statement {d}, which is not "
                            f"in the reaching set {sorted(reach.get(u, ()))} lian stores for {u}")

    def on_stmt(act, row):
        if row["operation"] in ("while_stmt", "forin_stmt", "for_stmt"):
            k = (act.id, row["stmt_id"])
            iters[k] = iters.get(k, 0) + 1
    outs, ret, err = run_gir(i, args, hooks={"on_def": on_def, "on_use": on_use, "on_stmt": on_stmt})
    if any(v > 2 for v in iters.values()):
        return None                     # some loop body ran more than once: outside the property's claim
    return problems[0] if problems else None


def check_rd(pidx: int, a: int, b: int, c: bool) -> bool:
    """
    pre: _pre(pidx, a, b) and 0 <= a <= 1 and 0 <= b <= 1
    post: _
    """
    why = rd_violation(pidx, (a, b, c))
    if why:
        return fail("rd", prog=BATCH["programs"][pidx]["name"], pidx=pidx, args=[a, b, c], why=why)
    return True


def check_rd_reach(pidx: int, a: int, b: int, c: bool) -> bool:
    """
    pre: _pre(pidx, a, b) and 0 <= a <= 1 and 0 <= b <= 1
    post: _
    """
    reach, analysed = rd_tables(pidx)
    return not (len(analysed) >= 3 and rd_violation(pidx, (a, b, c)) is None)


def classical_rd(i):
    """Concrete: classical reaching definitions over lian's own CFG for named variables; compare with lian's in-sets on
    loop-free methods.  Returns list of problems."""
    from vlib.gir_interp import Unit
    p = BATCH["programs"][i]
    u = Unit(p["rows"])
    reach, analysed = rd_tables(i)
    out = []
    for m, edges in cfg_of(i).items():
        nodes = {x for e in edges for x in e if x > 0}
        if not nodes:
            continue
        rows = {n: u.by_id.get(n) for n in nodes}
        if any(r is not None and r["operation"] in ("while_stmt", "forin_stmt", "for_stmt", "dowhile_stmt") for r in rows.values()):
            continue                    # equality is claimed on loop-free code only
        defs = {}
        for n, r in rows.items():
            if r is None:
                continue
            name = None
            if r["operation"] in ("variable_decl", "parameter_decl", "forin_stmt"):
                name = r.get("name")
            elif r["operation"] in ("array_write", "array_append"):
                name = r.get("array")
            elif r["operation"] == "record_write":
                name = r.get("receiver_record")
            elif r["operation"] == "field_write":
                name = r.get("receiver_object")
            elif "target" in r:
                name = r.get("target")
            if isinstance(name, str) and not name.startswith("%"):
                defs[n] = name
        preds = {}
        for (s, d) in edges:
            if d > 0:
                preds.setdefault(d, set()).add(s)
        IN = {n: set() for n in nodes}
        OUT = {n: set() for n in nodes}
        changed = True
        while changed:
            changed = False
            for n in sorted(nodes):
                i_n = set()
                for q in preds.get(n, ()):
                    i_n |= OUT.get(q, set())
                o_n = set(i_n)
                if n in defs:
                    o_n = {d for d in o_n if defs.get(d) != defs[n]} | {n}
                if i_n != IN[n] or o_n != OUT[n]:
                    IN[n], OUT[n] = i_n, o_n
                    changed = True
        for n in sorted(nodes):
            if n not in analysed:
                continue
            want = {d for d in IN[n] if d in defs}
            got = {d for d in reach.get(n, ()) if d in defs}
            if want != got:
                out.append(f"method {m} statement {n}: lian's reaching definitions of named variables {sorted(got)} != classical "
                           f"solution over its own CFG {sorted(want)}")
    return out[:2]


_replay_cfg = replay


def replay(func, cex):   # noqa: F811
    if func.startswith("check_rd"):
        prepare({"batch": SLICE["batch"]}) if not BATCH["programs"] else None
        i = cex["pidx"]
        a, b, c = cex["args"]
        p = BATCH["programs"][i]
        why = rd_violation(i, (a, b, bool(c)))
        return {"violated": bool(why), "observed": why, "what": f"program {p['name']} f({a}, {b}, {bool(c)}): {why}\n{p['src']}",
                "fingerprint": f"rd:{p['name']}:{p.get('hash') or __import__('hashlib').sha256(p['src'].encode()).hexdigest()[:10]}"}
    return _replay_cfg(func, cex)


# ---- C07: every run-time call is in the computed call graph ------------------------------------------------------------
def call_tables(i):
    p = BATCH["programs"][i]
    if "_calls" not in p:
        triples = set()
        for r in p.get("callpaths", []):
            path = r.get("call_path")
            if isinstance(path, str):
                path = json.loads(path)
            for site in path or []:
                triples.add((int(site[0]), int(site[1]), int(site[2])))
        ctx = set()
        for r in p.get("status", []):
            ctx.add(r["method_id"])
        p["_calls"] = (frozenset(triples), frozenset(ctx))
    return p["_calls"]


def call_violation(i, args):
    triples, contexts = call_tables(i)
    events = []

    def on_call(act, stmt_id, callee_id):
        if stmt_id:
            events.append((act.method_id, stmt_id, callee_id))
    outs, ret, err = run_gir(i, args, hooks={"on_call": on_call})
    for ev in events:
        if ev not in triples:
            return f"method {ev[0]} calls method {ev[2]} at statement {ev[1]} but no stored call path contains that call site"
        if ev[0] != ev[2] and hash(ev) not in contexts:
            return f"call site {ev} is in the call paths but the callee was never analysed under it (no statement status for that context)"
    return None


def check_calls(pidx: int, a: int, b: int, c: bool) -> bool:
    """
    pre: _pre(pidx, a, b)
    post: _
    """
    why = call_violation(pidx, (a, b, c))
    if why:
        return fail("calls", prog=BATCH["programs"][pidx]["name"], pidx=pidx, args=[a, b, c], why=why)
    return True


def check_calls_reach(pidx: int, a: int, b: int, c: bool) -> bool:
    """
    pre: _pre(pidx, a, b)
    post: _
    """
    triples, contexts = call_tables(pidx)
    return not (len(triples) >= 1 and call_violation(pidx, (a, b, c)) is None)


_replay_rd = replay


def replay(func, cex):   # noqa: F811
    if func.startswith("check_calls"):
        prepare({"batch": SLICE["batch"]}) if not BATCH["programs"] else None
        i = cex["pidx"]
        a, b, c = cex["args"]
        p = BATCH["programs"][i]
        why = call_violation(i, (a, b, bool(c)))
        return {"violated": bool(why), "observed": why, "what": f"program {p['name']} f({a}, {b}, {bool(c)}): {why}\n{p['src']}",
                "fingerprint": f"calls:{p['name']}:{p.get('hash') or __import__('hashlib').sha256(p['src'].encode()).hexdigest()[:10]}"}
    return _replay_rd(func, cex)


# ---- C08 / C09: abstract values ------------------------------------------------------------------------------------------
def value_tables(i):
    """stmt id -> list of (state_type, data_type, value) lian holds for the symbol defined there (union over status rows)."""
    p = BATCH["programs"][i]
    if "_vals" not in p:
        space = {r["index"]: r for r in p.get("space", [])}
        out = {}
        for st in p.get("status", []):
            ds = st.get("defined_symbol")
            sym = space.get(ds)
            if not sym or sym.get("symbol_or_state") != 0:
                continue
            lst = out.setdefault(st["stmt_id"], [])
            for si in sym.get("states") or []:
                s = space.get(si)
                if s is None:
                    lst.append((4, "", None))
                else:
                    lst.append((s.get("state_type", 1), s.get("data_type") or "", s.get("value")))
        p["_vals"] = out
    return p["_vals"]


def _consts(states):
    """parse lian's constant states natively: list of python constants, or None if an explicit unknown is present"""
    out = []
    for (st, dt, val) in states:
        if st != 1:
            return None
        if val is None:
            continue
        sv = str(val)
        if dt == "%string":
            out.append(sv)
            continue
        if sv.endswith(".0"):
            sv = sv[:-2]
        try:
            out.append(int(sv))
            continue
        except ValueError:
            pass
        if sv.lower() in ("true", "false"):
            out.append(sv.lower() == "true")
        else:
            out.append(sv)
    return out


def covers(states, v):
    cs = _consts(states)
    if cs is None:
        return True                           # explicit unknown (UNSOLVED / ANYTHING / UNINIT)
    for c in cs:
        if isinstance(c, str) != isinstance(v, str):
            continue
        if c == v:
            return True
    return False


def run_module(i, inputs, hooks):
    p = BATCH["programs"][i]
    it = Interp(units_of(p), hooks=hooks, fuel=2500, inputs=list(inputs))
    try:
        it.load_module("m")
        return None
    except GirError as e:
        return "GirError: " + str(e)
    except (ArithmeticError, LookupError, TypeError, ValueError, AttributeError, RecursionError) as e:
        return type(e).__name__


def cover_violation(i, args):
    vals = value_tables(i)
    events = []
    callers = {}

    def on_def(act, row, name, value):
        if row["operation"] in ("parameter_decl", "method_decl", "class_decl", "forin_stmt"):
            return
        if not isinstance(value, (int, str)) or name is None:
            return
        if row["stmt_id"] in vals:
            events.append((row, name, value, act.method_id))

    def on_call(act, stmt_id, callee_id):
        callers.setdefault((callee_id, stmt_id), set()).add(act.id)
    run_module(i, args, {"on_def": on_def, "on_call": on_call})
    # a helper entered through the same call statement from two different activations shares one 1-call-site context: the stored
    # table keeps the last one only; definitions there are judged at the callers (where the results arrive), not inside
    collapsed = {m for (m, st), acts in callers.items() if len(acts) > 1}
    for row, name, value, m in events:
        if m in collapsed:
            continue
        sid = row["stmt_id"]
        if not covers(vals[sid], value):
            return (f"`{name}` defined at statement {sid} ({row['operation']}) takes the value {value!r}, which none of lian's "
                    f"states for that definition covers: {vals[sid]}")
    return None


def check_cover(pidx: int, a: int, b: int, c: bool) -> bool:
    """
    pre: _pre(pidx, a, b)
    post: _
    """
    why = cover_violation(pidx, (a, b, c))
    if why:
        return fail("cover", prog=BATCH["programs"][pidx]["name"], pidx=pidx, args=[a, b, c], why=why)
    return True


def check_cover_reach(pidx: int, a: int, b: int, c: bool) -> bool:
    """
    pre: _pre(pidx, a, b)
    post: _
    """
    seen = []
    run_module(pidx, (a, b, c), {"on_def": lambda act, row, name, value: seen.append(1)})
    return not (len(seen) >= 3)


def observe_decisions(i, decisions):
    """Branch-directed run: the k-th executed if_stmt takes decisions[k].  Returns {stmt id: value} of primitive definitions."""
    obs = {}
    k = [0]

    def decide(act, row, cond):
        j = k[0]
        k[0] += 1
        return decisions[j] if j < len(decisions) else False

    def on_def(act, row, name, value):
        if row["operation"] in ("parameter_decl", "method_decl", "class_decl", "forin_stmt"):
            return
        if isinstance(value, (int, str)) and name is not None:
            obs.setdefault(row["stmt_id"], []).append(value)
    run_module(i, (0, 0, False), {"decide": decide, "on_def": on_def})
    return obs, k[0]


def check_exact_paths(pidx: int, d0: bool, d1: bool, d2: bool, d3: bool, d4: bool) -> bool:
    """
    pre: SLICE["range"][0] <= pidx < SLICE["range"][1] and pidx not in SLICE.get("skip", ())
    post: _
    """
    from crosshair.core import deep_realize
    from crosshair.tracers import NoTracing
    obs, used = observe_decisions(pidx, [d0, d1, d2, d3, d4])
    if used > 5:
        return True
    obs = deep_realize(obs)
    with NoTracing():
        with open(SLICE["obsfile"], "a") as f:
            f.write(json.dumps({"pidx": int(pidx), "obs": {str(k): v for k, v in obs.items()}}) + "\n")
    return True


def entry_statements(i):
    """statement ids of the entry function f (definitions there are executed in exactly one calling context)"""
    p = BATCH["programs"][i]
    if "_entry_stmts" not in p:
        from vlib.gir_interp import Unit
        u = Unit(p["rows"])
        ids = set()

        def walk(block):
            for r in u.children.get(block, []):
                ids.add(r["stmt_id"])
                for k in ("body", "then_body", "else_body"):
                    if isinstance(r.get(k), int) and r["operation"] not in ("method_decl", "class_decl"):
                        walk(r[k])
        for r in u.top:
            if r["operation"] == "method_decl" and r.get("name") == "f" and isinstance(r.get("body"), int):
                walk(r["body"])
        p["_entry_stmts"] = ids
    return p["_entry_stmts"]


def exactness_problems(i, observed):
    """observed: {stmt id(str): set of values} over ALL control-flow paths.  Compare with lian's constant sets: two-sided for the
    definitions of the entry function; for helper bodies (analysed once per 1-call-site context, tables keep the last context)
    only 'lian holds nothing that was never written'."""
    vals = value_tables(i)
    entry = entry_statements(i)
    out = []
    for sid, states in vals.items():
        if not states or any(st != 1 for (st, dt, v) in states):
            continue
        if any(dt not in ("%int", "%string", "%bool") for (st, dt, v) in states):
            continue
        seen = observed.get(str(sid))
        if seen is None:
            continue
        lian = sorted({str(v)[:-2] if str(v).endswith(".0") else str(v) for (st, dt, v) in states})
        real = sorted({str(int(x)) if isinstance(x, bool) and False else str(x) for x in seen})
        real_alt = sorted({str(x).lower() for x in seen})
        if sid not in entry:
            if not (set(lian) <= set(real) or set(x.lower() for x in lian) <= set(real_alt)):
                out.append(f"definition at statement {sid} (helper body): lian holds {lian}, but only {real} are ever written there")
            continue
        if lian != real and sorted(x.lower() for x in lian) != real_alt:
            out.append(f"definition at statement {sid}: lian holds exactly {lian}, the union of the last values written over all "
                       f"control-flow paths is {real}")
    return out


_replay_calls = replay


def replay(func, cex):   # noqa: F811
    if func.startswith("check_cover"):
        prepare({"batch": SLICE["batch"]}) if not BATCH["programs"] else None
        i = cex["pidx"]
        a, b, c = cex["args"]
        p = BATCH["programs"][i]
        why = cover_violation(i, (a, b, bool(c)))
        return {"violated": bool(why), "observed": why, "what": f"program {p['name']} inputs ({a}, {b}, {bool(c)}): {why}\n{p['src']}",
                "fingerprint": f"cover:{p['name']}:{p.get('hash') or __import__('hashlib').sha256(p['src'].encode()).hexdigest()[:10]}"}
    return _replay_calls(func, cex)


# ---- C05: lexical scoping ------------------------------------------------------------------------------------------------
def scope_tables(i):
    """(lian: {(stmt id, name): set(symbol ids)}, decls: {(method id or 0, name): decl stmt id}) built natively."""
    p = BATCH["programs"][i]
    if "_scope" not in p:
        from vlib.gir_interp import Unit
        res = {}
        for t in ("space1", "space"):
            for r in p.get(t, []):
                if r.get("symbol_or_state") == 0 and r.get("name") is not None:
                    res.setdefault((r["stmt_id"], r["name"]), set()).add(r["symbol_id"])
        u = Unit(p["rows"])
        decls = {}
        unit_init = None

        def scan(block, m):
            for r in u.children.get(block, []):
                op = r["operation"]
                if op in ("variable_decl", "parameter_decl"):
                    decls.setdefault((m, r["name"]), r["stmt_id"])
                elif op in ("method_decl", "class_decl"):
                    decls.setdefault((m, r["name"]), r["stmt_id"])
                    if op == "method_decl":
                        for k in ("parameters", "body"):
                            if isinstance(r.get(k), int):
                                scan(r[k], r["stmt_id"])
                    continue
                for k in ("body", "then_body", "else_body"):
                    if isinstance(r.get(k), int) and op not in ("method_decl", "class_decl"):
                        scan(r[k], m)
        for r in u.top:
            op = r["operation"]
            if op == "variable_decl":
                decls.setdefault((0, r["name"]), r["stmt_id"])
            elif op == "method_decl":
                if r.get("name") == "%unit_init":
                    unit_init = r["stmt_id"]
                    continue
                decls.setdefault((0, r["name"]), r["stmt_id"])
                for k in ("parameters", "body"):
                    if isinstance(r.get(k), int):
                        scan(r[k], r["stmt_id"])
            elif op == "class_decl":
                decls.setdefault((0, r["name"]), r["stmt_id"])
                for mr in u.children.get(r.get("methods"), []):
                    if mr["operation"] == "method_decl":
                        for k in ("parameters", "body"):
                            if isinstance(mr.get(k), int):
                                scan(mr[k], mr["stmt_id"])
        p["_scope"] = ({k: frozenset(v) for k, v in res.items()}, decls, unit_init)
    return p["_scope"]


def imported_decls(p):
    """{name bound by a module-level from-import of the main unit: declaration id in the exporting analysed file}"""
    from vlib.gir_interp import Unit
    extra = {k: Unit(v) for k, v in (p.get("extra_rows") or {}).items()}

    def find(mod, name, depth=0):
        u = extra.get(mod)
        if u is None or depth > 4:
            return None
        for r in u.top:
            if r["operation"] in ("method_decl", "class_decl", "variable_decl") and r.get("name") == name:
                return r["stmt_id"]
        for r in u.top:
            if r["operation"] == "from_import_stmt" and (r.get("alias") or r.get("name")) == name:
                return find(str(r.get("source")).split(".")[-1], r.get("name"), depth + 1)
        return None
    out = {}
    for r in Unit(p["rows"]).top:
        if r["operation"] == "from_import_stmt":
            d = find(str(r.get("source")).split(".")[-1], r.get("name"))
            if d is not None:
                out[r.get("alias") or r.get("name")] = d
    return out


def scope_violation(i, args):
    lian, decls, unit_init = scope_tables(i)
    p = BATCH["programs"][i]
    if "_main_ids" not in p:
        p["_main_ids"] = frozenset(r["stmt_id"] for r in p["rows"])
        p["_imported"] = imported_decls(p)
    main_ids, imported = p["_main_ids"], p["_imported"]
    problems = []

    def on_bind(act, owner, name):
        if problems or name.startswith("%"):
            return
        cur = getattr(act, "cur", None)
        if cur is None:
            return
        sid = cur["stmt_id"]
        if sid not in main_ids:
            return                                  # occurrences inside the imported files are not judged (their tables are not attached)
        got = lian.get((sid, name))
        if got is None:
            return                                  # lian has no entry for this occurrence (not analysed): not judged here
        m = owner.method_id
        if owner is owner.module or owner.vars is owner.module.vars or m == unit_init:
            m = 0
            unit_rows = getattr(getattr(owner.module, "unit", None), "by_id", None)
            if unit_rows and next(iter(unit_rows)) not in main_ids:
                return                              # a cell of another module's scope
            if name in imported:
                if got != {imported[name]}:
                    problems.append(f"`{name}` at statement {sid} ({cur['operation']}) is imported: the language binds it to the declaration "
                                    f"{imported[name]} in the exporting file, lian resolves it to {sorted(got)}")
                return
        if owner.cls is not None and m not in (0,) and (m, name) not in decls:
            return                                  # class initialiser scope: class attributes are fields, judged by C08/C09
        want = decls.get((m, name))
        if want is None:
            return
        if got != {want}:
            problems.append(f"`{name}` at statement {sid} ({cur['operation']}) is bound by the language to the declaration {want} "
                            f"(scope of method {m if m else 'module'}), lian resolves it to {sorted(got)}")
    run_module(i, args, {"on_bind": on_bind})
    return problems[0] if problems else None


def check_scope(pidx: int, a: int, b: int, c: bool) -> bool:
    """
    pre: _pre(pidx, a, b)
    post: _
    """
    why = scope_violation(pidx, (a, b, c))
    if why:
        return fail("scope", prog=BATCH["programs"][pidx]["name"], pidx=pidx, args=[a, b, c], why=why)
    return True


def check_scope_reach(pidx: int, a: int, b: int, c: bool) -> bool:
    """
    pre: _pre(pidx, a, b)
    post: _
    """
    seen = []
    run_module(pidx, (a, b, c), {"on_bind": lambda act, owner, name: seen.append(1)})
    return not (len(seen) >= 4)


_replay_cover = replay


def replay(func, cex):   # noqa: F811
    if func.startswith("check_scope"):
        prepare({"batch": SLICE["batch"]}) if not BATCH["programs"] else None
        i = cex["pidx"]
        a, b, c = cex["args"]
        p = BATCH["programs"][i]
        why = scope_violation(i, (a, b, bool(c)))
        return {"violated": bool(why), "observed": why, "what": f"program {p['name']} inputs ({a}, {b}, {bool(c)}): {why}\n{p['src']}",
                "fingerprint": f"scope:{p['name']}:{p.get('hash') or __import__('hashlib').sha256(p['src'].encode()).hexdigest()[:10]}"}
    return _replay_cover(func, cex)


# ---- C10 / C11 program-level: taint flows --------------------------------------------------------------------------------
def flow_tables(i):
    p = BATCH["programs"][i]
    if "_flows" not in p:
        p["_flows"] = frozenset((r["source_stmt_id"], r["sink_stmt_id"]) for r in p.get("flows", []))
    return p["_flows"]


def taint_violation(i, args):
    flows = flow_tables(i)
    p = BATCH["programs"][i]
    it = Interp(units_of(p), fuel=2500, inputs=list(args))
    try:
        it.load_module("m")
    except GirError:
        pass
    except (ArithmeticError, LookupError, TypeError, ValueError, AttributeError, RecursionError):
        pass
    for sink_stmt, arg_origins in it.sink_events:
        if not arg_origins:
            continue
        for src in arg_origins[0]:              # the rule designates argument 0
            if (src, sink_stmt) not in flows:
                return (f"the value produced by the source call at statement {src} reaches argument 0 of the sink call at statement "
                        f"{sink_stmt}, but no reported flow has those two statements (reported: {sorted(flows)})")
    return None


def check_taint(pidx: int, a: int, b: int, c: bool) -> bool:
    """
    pre: _pre(pidx, a, b)
    post: _
    """
    why = taint_violation(pidx, (a, b, c))
    if why:
        return fail("taint", prog=BATCH["programs"][pidx]["name"], pidx=pidx, args=[a, b, c], why=why)
    return True


def check_taint_reach(pidx: int, a: int, b: int, c: bool) -> bool:
    """
    pre: _pre(pidx, a, b)
    post: _
    """
    flows = flow_tables(pidx)
    return not (len(flows) >= 1 and taint_violation(pidx, (a, b, c)) is None)


def reported_flow_problems(i):
    """C11, concrete: every reported flow starts at a statement matching the source rule and ends at one matching the sink rule."""
    p = BATCH["programs"][i]
    by = {r["stmt_id"]: r for r in p["rows"]}
    out = []
    for (s, k) in flow_tables(i):
        rs, rk = by.get(s), by.get(k)
        if rs is None or rs.get("operation") != "call_stmt" or rs.get("name") != "source":
            out.append(f"reported flow ({s},{k}): statement {s} is not a call of the configured source")
        if rk is None or rk.get("operation") != "call_stmt" or rk.get("name") != "sink":
            out.append(f"reported flow ({s},{k}): statement {k} is not a call of the configured sink")
    return out


def dep_oracle_violation(i, args):
    """oracle sanity (C11): whatever source value dynamically arrives at an argument of a sink call must be a dependence of
    vlib.flowdep's reading (the table `dep` is computed natively by the check, outside tracing)."""
    p = BATCH["programs"][i]
    dep = p.get("_dep")
    if dep is None:
        dep = p["_dep"] = frozenset((a, b, c) for a, b, c in p.get("dep", []))
    it = Interp(units_of(p), fuel=2500, inputs=list(args))
    try:
        it.load_module("m")
    except GirError:
        pass
    except (ArithmeticError, LookupError, TypeError, ValueError, AttributeError, RecursionError):
        pass
    for sink_stmt, arg_origins in it.sink_events:
        for k, origins in enumerate(arg_origins):
            for src in origins:
                if (src, sink_stmt, k) not in dep:
                    return f"source value of statement {src} arrives at argument {k} of the sink call {sink_stmt}, but flowdep derives no dependence"
    return None


def check_dep_oracle(pidx: int, a: int, b: int, c: bool) -> bool:
    """
    pre: _pre(pidx, a, b)
    post: _
    """
    why = dep_oracle_violation(pidx, (a, b, c))
    if why:
        return fail("dep-oracle", prog=BATCH["programs"][pidx]["name"], pidx=pidx, args=[a, b, c], why=why)
    return True


_replay_scope = replay


def replay(func, cex):   # noqa: F811
    if func == "check_dep_oracle":
        prepare({"batch": SLICE["batch"]}) if not BATCH["programs"] else None
        a, b, c = cex["args"]
        why = dep_oracle_violation(cex["pidx"], (a, b, bool(c)))
        p = BATCH["programs"][cex["pidx"]]
        return {"violated": bool(why), "observed": why, "what": f"ORACLE: program {p['name']} inputs ({a}, {b}, {bool(c)}): {why}",
                "fingerprint": f"dep-oracle:{p['name']}"}
    if func.startswith("check_taint"):
        prepare({"batch": SLICE["batch"]}) if not BATCH["programs"] else None
        i = cex["pidx"]
        a, b, c = cex["args"]
        p = BATCH["programs"][i]
        why = taint_violation(i, (a, b, bool(c)))
        return {"violated": bool(why), "observed": why, "what": f"program {p['name']} inputs ({a}, {b}, {bool(c)}): {why}\n{p['src']}",
                "fingerprint": f"taint:{p['name']}:{p.get('hash') or __import__('hashlib').sha256(p['src'].encode()).hexdigest()[:10]}"}
    return _replay_scope(func, cex)
