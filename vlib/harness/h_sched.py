"""Scheduler kernel shared by C13(b) (termination) and C06 (scheduling obligations): the real
P2PrelimSemanticAnalysis.analyze_stmts and the real SimpleWorkList on every small CFG, transfer functions stubbed."""
import types

import networkx as nx

from vlib import common
from vlib.xh import SLICE, fail

common.setup_lian()
from lian.common_structs import P2ResultFlag, SimpleSet, SimpleWorkList  # noqa: E402
from lian.config import config as lian_config  # noqa: E402
from lian.core.prelim_semantics import P2PrelimSemanticAnalysis  # noqa: E402
from lian.util import util as lian_util  # noqa: E402


class Fuel(Exception):
    pass


def edge_pairs(n):
    """ordered pairs (i, j) with j != 1 (node 1 is the entry: no incoming edges), ids 1..n, plus exit -1 from any node."""
    return [(i, j) for i in range(1, n + 1) for j in range(2, n + 1) if i != j]


def build_cfg(n, bits):
    g = nx.DiGraph()
    for i in range(1, n + 1):
        g.add_node(i)
    for (i, j), b in zip(edge_pairs(n), bits):
        if b:
            g.add_edge(i, j, weight=0)
    return g


def run_scheduler(n, bits, max_round, changed_bits=None):
    """Returns dict(log=[('analyze',id)|('pop',id)], outcome)."""
    g = build_cfg(n, bits)
    log = []
    p2 = P2PrelimSemanticAnalysis.__new__(P2PrelimSemanticAnalysis)
    p2.options = types.SimpleNamespace(debug=False)
    p2.max_analysis_round = max_round
    counter = [0]
    fuel = 4 * n * (max_round + 2) + 8

    def analyze_reachable_symbols(stmt_id, stmt, frame):
        counter[0] += 1
        if counter[0] > fuel:
            raise Fuel()
        log.append(("analyze", stmt_id))

    def compute_stmt_states(stmt_id, stmt, frame):
        return P2ResultFlag()
    p2.analyze_reachable_symbols = analyze_reachable_symbols
    p2.compute_stmt_states = compute_stmt_states
    p2.rerun_analyze_reachable_symbols = lambda *a: None
    p2.update_method_def_use_summary = lambda *a: None

    class LoggingWorkList(SimpleWorkList):
        def pop(self):
            r = SimpleWorkList.pop(self)
            log.append(("pop", r))
            counter[0] += 1
            if counter[0] > fuel:
                raise Fuel()
            return r
    frame = types.SimpleNamespace()
    frame.cfg = g
    frame.method_id = 1
    frame.stmt_counters = {i: lian_config.FIRST_ROUND for i in range(1, n + 1)}
    frame.is_first_round = {i: True for i in range(1, n + 1)}
    frame.loop_total_rounds = {}
    frame.interruption_flag = False
    frame.unit_gir = types.SimpleNamespace(get_stmt_by_id=lambda i: types.SimpleNamespace(operation="assign_stmt", stmt_id=i))
    frame.stmts_with_symbol_update = SimpleSet()
    frame.stmt_worklist = LoggingWorkList(graph=g)
    first = lian_util.find_cfg_first_nodes(g)
    frame.stmt_worklist.add(first)
    frame.stmts_with_symbol_update.add(first)
    outcome = "finished"
    try:
        p2.analyze_stmts(frame)
    except Fuel:
        outcome = "fuel"
    return dict(log=log, outcome=outcome, graph=g, counters=dict(frame.stmt_counters))


def reachable(g, src):
    seen, stack = set(), [src]
    while stack:
        x = stack.pop()
        if x in seen:
            continue
        seen.add(x)
        stack.extend(g.successors(x))
    return seen


def judge(n, res, max_round, mode):
    log, g = res["log"], res["graph"]
    if res["outcome"] == "fuel":
        return ("termination", "the worklist loop exceeded its fuel (4*n*(max_round+2)+8 analyses and pops)") \
            if mode in ("all", "termination") else (None, None)
    analyses = [x for k, x in log if k == "analyze"]
    if mode in ("all", "termination"):
        for i in range(1, n + 1):
            if analyses.count(i) > max_round:
                return "termination", f"statement {i} analysed {analyses.count(i)} times, round bound is {max_round}"
    if mode in ("all", "schedule"):
        # S1: the statement removed at the end of an iteration is the statement that was analysed
        for idx, (k, x) in enumerate(log):
            if k == "analyze":
                nxt = [e for e in log[idx + 1:idx + 2]]
                if not nxt or nxt[0][0] != "pop" or nxt[0][1] != x:
                    return "schedule", (f"statement {x} was analysed but {nxt[0][1] if nxt else None} was removed from the "
                                        f"worklist afterwards")
        # S2: every statement reachable from the entry is analysed
        entries = [v for v in g.nodes if g.in_degree(v) == 0]
        reach = set()
        for e in entries:
            reach |= reachable(g, e)
        for v in sorted(reach):
            if v not in analyses:
                return "schedule", f"statement {v} is reachable from the entry but never analysed"
        # S3: information can travel round a loop: for every edge u->h inside the reachable part, h is analysed at least once
        # after the first analysis of u (needs two rounds)
        if max_round >= 2:
            for (u, h) in g.edges:
                if u in reach and h in reach:
                    fu = analyses.index(u)
                    if h not in analyses[fu + 1:]:
                        return "schedule", (f"edge {u}->{h}: {h} is never analysed after the first analysis of {u} "
                                            f"(order {analyses})")
    return None, None


def _bits(args):
    return list(args[:len(edge_pairs(SLICE.get("n", 4)))])


def _pre(args, mr):
    for b in _bits(args):
        if not (0 <= b <= 1):
            return False
    fix = SLICE.get("fix", {})
    for k, v in fix.items():
        if args[int(k)] not in v:
            return False
    if not (1 <= mr <= 3 and mr in SLICE.get("rounds", [2, 3])):
        return False
    # realistic CFGs: single entry (node 1), every node reachable from it
    n = SLICE.get("n", 4)
    g = build_cfg(n, _bits(args))
    if [v for v in g.nodes if g.in_degree(v) == 0] != [1] or len(reachable(g, 1)) != n:
        return False
    if SLICE.get("acyclic") and not nx.is_directed_acyclic_graph(g):
        return False
    return True


def check_scheduler(b0: int, b1: int, b2: int, b3: int, b4: int, b5: int, b6: int, b7: int, b8: int, mr: int) -> bool:
    """
    pre: _pre((b0, b1, b2, b3, b4, b5, b6, b7, b8), mr)
    post: _
    """
    n = SLICE.get("n", 4)
    bits = _bits((b0, b1, b2, b3, b4, b5, b6, b7, b8))
    res = run_scheduler(n, bits, mr)
    kind, why = judge(n, res, mr, SLICE.get("mode", "all"))
    if kind:
        return fail(kind, n=n, bits=bits, max_round=mr, why=why, edges=[list(e) for e in res["graph"].edges])
    return True


def check_scheduler_reach(b0: int, b1: int, b2: int, b3: int, b4: int, b5: int, b6: int, b7: int, b8: int, mr: int) -> bool:
    """
    pre: _pre((b0, b1, b2, b3, b4, b5, b6, b7, b8), mr)
    post: _
    """
    n = SLICE.get("n", 4)
    res = run_scheduler(n, _bits((b0, b1, b2, b3, b4, b5, b6, b7, b8)), mr)
    return not (len([1 for k, x in res["log"] if k == "analyze"]) >= 4)


def replay(func, cex):
    res = run_scheduler(cex["n"], cex["bits"], cex["max_round"])
    kind, why = judge(cex["n"], res, cex["max_round"], cex.get("kind") if cex.get("kind") in ("termination", "schedule") else "all")
    edges = sorted(res["graph"].edges)
    return {"violated": bool(kind), "observed": why,
            "what": f"CFG edges {edges} (entry 1), max rounds {cex['max_round']}: {why}",
            "fingerprint": f"scheduler:{kind}:{edges}:{cex['max_round']}"}


run_scheduler(4, [1, 0, 0, 1, 0, 0, 0, 1, 0], 2)     # warm-up
nx.is_directed_acyclic_graph(build_cfg(4, [1, 0, 0, 1, 0, 0, 0, 1, 0]))      # networkx compiles this lazily: do it outside tracing
