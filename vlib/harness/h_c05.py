"""C05 kernel: the real UnitScopeHierarchyAnalysis.summarize_symbol_decls (declaring scopes, visible scopes, transitive closure)
followed by the real Resolver.resolve_symbol_source_decl, on every small scope forest, against the lexical rule:

    the declaration of name n seen from scope c is the one owned by the nearest scope on the chain c, parent(c), ..., module
    that declares n; blocks directly under the module (lian's "implicit root scopes", e.g. a top-level if-block) are consulted
    only when no scope of the chain declares n; otherwise the name is unresolved.  `source_symbol_must_be_global` looks at the
    module scope only.

Forest encoding (all scalars, chosen by the solver): scopes S1..S3 have statement ids 10, 20, 30 (pre-order: a parent precedes
its children, as in lian's scope table); per scope: kind (method / class / block / for), parent (module or an earlier scope),
whether the scope itself is named `x` (a method or class named x declares x in its parent scope); per scope incl. the module: does
it own a variable declaration of `x` (statement id = scope id + 5).  The query: current scope, global flag.
"""
import types

from vlib import common
from vlib.xh import SLICE, fail

common.setup_lian()
from lian.basics.scope_hierarchy import UnitScopeHierarchyAnalysis  # noqa: E402
from lian.config.constants import LIAN_SYMBOL_KIND as K  # noqa: E402
from lian.core.resolver import Resolver  # noqa: E402



class Scope:
    """duck-typed row of the scope table (the real dataclass annotates a field with an enum *instance*, which CrossHair's
    class-contract scan cannot read); summarize_symbol_decls only reads these attributes"""

    def __init__(self, unit_id, stmt_id, scope_id, parent_stmt_id, scope_kind, name):
        self.unit_id, self.stmt_id, self.scope_id, self.parent_stmt_id = unit_id, stmt_id, scope_id, parent_stmt_id
        self.scope_kind, self.name, self.alias, self.attrs, self.supers, self.source = scope_kind, name, "", "", "", ""


KINDS = [K.METHOD_KIND, K.CLASS_KIND, K.BLOCK_KIND, K.FOR_KIND]
KIND_NAMES = ["method", "class", "block", "for"]
IDS = [0, 10, 20, 30]
NAME = "x"


def build_rows(kinds, parents, named, decls):
    """rows of the scope table in statement-id order"""
    rows = []
    if decls[0]:
        rows.append(Scope(unit_id=1, stmt_id=5, scope_id=0, parent_stmt_id=0, scope_kind=K.VARIABLE_DECL, name=NAME))
    for i in (1, 2, 3):
        if i > len(kinds):
            break
        kind = KINDS[kinds[i - 1]]
        parent = IDS[parents[i - 1]]
        nm = ""
        if kind in (K.METHOD_KIND, K.CLASS_KIND):
            nm = NAME if named[i - 1] else f"m{i}"
        rows.append(Scope(unit_id=1, stmt_id=IDS[i], scope_id=parent, parent_stmt_id=parent, scope_kind=kind, name=nm))
        if decls[i]:
            rows.append(Scope(unit_id=1, stmt_id=IDS[i] + 5, scope_id=IDS[i], parent_stmt_id=IDS[i], scope_kind=K.VARIABLE_DECL, name=NAME))
    return rows


def run_real(rows, current, must_be_global):
    captured = {}
    ana = UnitScopeHierarchyAnalysis.__new__(UnitScopeHierarchyAnalysis)
    ana.scope_space = rows
    ana.options = types.SimpleNamespace(strict_parse_mode=False)
    ana.unit_id = 1
    ana.unit_info = types.SimpleNamespace(original_path="a.py")
    ana.loader = types.SimpleNamespace(save_unit_symbol_decl_summary=lambda uid, s: captured.__setitem__("s", s))
    ana.summarize_symbol_decls()
    summary = captured["s"]
    res = Resolver.__new__(Resolver)
    res.loader = types.SimpleNamespace(
        get_unit_symbol_decl_summary=lambda uid: summary,
        convert_stmt_id_to_scope_id=lambda sid: current,
        is_import_stmt=lambda sid: False,
    )
    # stub with the documented meaning of the real method (which reads a pandas table): block scopes directly under the module
    roots = set()
    for r in rows:
        if r.scope_kind == K.BLOCK_KIND and r.scope_id == 0:
            roots.add(r.stmt_id)
    res.resolve_implicit_root_scopes = lambda uid: roots
    out = res.resolve_symbol_source_decl(1, 999, NAME, source_symbol_must_be_global=must_be_global)
    return (out.source_symbol_id, out.decl_scope_id)


def reference(kinds, parents, named, decls, current, must_be_global):
    n = len(kinds)
    parent = {IDS[i]: IDS[parents[i - 1]] for i in range(1, n + 1)}
    declared = {}           # scope id -> declaration statement id of x
    for i in range(0, n + 1):
        if decls[i]:
            declared[IDS[i]] = IDS[i] + 5
    for i in range(1, n + 1):
        if KINDS[kinds[i - 1]] in (K.METHOD_KIND, K.CLASS_KIND) and named[i - 1]:
            declared[parent[IDS[i]]] = IDS[i]          # (double declarations are excluded by the precondition)
    if must_be_global:
        return (declared[0], 0) if 0 in declared else (-1, -1)
    s = current
    while True:
        if s in declared:
            return (declared[s], s)
        if s == 0:
            break
        s = parent[s]
    best = -1
    for i in range(1, n + 1):
        if KINDS[kinds[i - 1]] == K.BLOCK_KIND and parent[IDS[i]] == 0 and IDS[i] in declared and IDS[i] > best:
            best = IDS[i]
    if best >= 0:
        return (declared[best], best)
    return (-1, -1)


def _valid(kinds, parents, named, decls, current):
    n = SLICE.get("scopes", 3)
    nk = len(SLICE.get("kinds", [0, 1, 2, 3]))
    for i in range(n):
        if not (0 <= kinds[i] < 4) or kinds[i] not in SLICE.get("kinds", [0, 1, 2, 3]):
            return False
        if not (0 <= parents[i] <= i):
            return False
        if named[i] and kinds[i] >= 2:          # only methods and classes have names
            return False
        if named[i] and i >= SLICE.get("named_scopes", 3):
            return False
    fix = SLICE.get("fix") or {}
    if "k1" in fix and kinds[0] not in fix["k1"]:
        return False
    if "k2" in fix and n > 1 and kinds[1] not in fix["k2"]:
        return False
    if not (0 <= current <= n):
        return False
    if "cur" in fix and current not in fix["cur"]:
        return False
    # a scope named x and a variable x in the same owner: excluded (which row wins is not part of the claim)
    for i in range(n):
        if named[i] and decls[parents[i]]:
            return False
        for j in range(i + 1, n):
            if named[i] and named[j] and parents[i] == parents[j]:
                return False
    return nk > 0


def check_resolution(k1: int, k2: int, k3: int, p1: int, p2: int, p3: int, n1: bool, n2: bool, n3: bool,
                     d0: bool, d1: bool, d2: bool, d3: bool, cur: int, glob: bool) -> bool:
    """
    pre: _valid((k1, k2, k3), (p1, p2, p3), (n1, n2, n3), (d0, d1, d2, d3), cur)
    post: _
    """
    n = SLICE.get("scopes", 3)
    kinds, parents, named = (k1, k2, k3)[:n], (p1, p2, p3)[:n], (n1, n2, n3)[:n]
    decls = (d0, d1, d2, d3)[:n + 1]
    got = run_real(build_rows(kinds, parents, named, decls), IDS[cur], glob)
    want = reference(kinds, parents, named, decls, IDS[cur], glob)
    if got != want:
        return fail("resolution", kinds=kinds, parents=parents, named=named, decls=decls, cur=cur, glob=glob, got=got, want=want)
    return True


def check_resolution_reach(k1: int, k2: int, k3: int, p1: int, p2: int, p3: int, n1: bool, n2: bool, n3: bool,
                           d0: bool, d1: bool, d2: bool, d3: bool, cur: int, glob: bool) -> bool:
    """
    pre: _valid((k1, k2, k3), (p1, p2, p3), (n1, n2, n3), (d0, d1, d2, d3), cur)
    post: _
    """
    n = SLICE.get("scopes", 3)
    kinds, parents, named = (k1, k2, k3)[:n], (p1, p2, p3)[:n], (n1, n2, n3)[:n]
    decls = (d0, d1, d2, d3)[:n + 1]
    want = reference(kinds, parents, named, decls, IDS[cur], glob)
    return not (want[0] > 0 and want[1] > 0 and cur > 0)


def describe(cex):
    n = len(cex["kinds"])
    parts = []
    for i in range(n):
        parts.append(f"S{i + 1}(id {IDS[i + 1]}, {KIND_NAMES[cex['kinds'][i]]}{' named x' if cex['named'][i] else ''}, in "
                     f"{'module' if cex['parents'][i] == 0 else 'S' + str(cex['parents'][i])}"
                     f"{', declares x' if cex['decls'][i + 1] else ''})")
    return (f"scopes: {'; '.join(parts)}; module {'declares' if cex['decls'][0] else 'does not declare'} x; name x used in "
            f"{'the module' if cex['cur'] == 0 else 'S' + str(cex['cur'])}{' (global lookup)' if cex['glob'] else ''}")


def replay(func, cex):
    kinds, parents, named, decls = cex["kinds"], cex["parents"], cex["named"], cex["decls"]
    got = run_real(build_rows(kinds, parents, named, decls), IDS[cex["cur"]], cex["glob"])
    want = reference(kinds, parents, named, decls, IDS[cex["cur"]], cex["glob"])
    got, want = tuple(int(v) for v in got), tuple(int(v) for v in want)
    return {"violated": got != want, "observed": list(got),
            "what": f"{describe(cex)}: resolved to (declaration, owning scope) = {got}, the lexical rule gives {want}",
            "fingerprint": f"resolution:{cex['kinds']}:{cex['parents']}:{[int(bool(v)) for v in cex['named']]}:"
                           f"{[int(bool(v)) for v in cex['decls']]}:{cex['cur']}:{int(bool(cex['glob']))}"}


run_real(build_rows((0, 2, 0), (0, 0, 1), (False, False, False), (True, True, False, True)), 30, False)      # warm-up, not asserted
