"""C03(a) harness: any nested GIR value -> well-formed rows (real GIRProcessing.flatten + add_main_func)."""
from vlib import common
from vlib.xh import SLICE, fail

common.setup_lian()
from lian.events.default_event_handlers import basic  # noqa: E402
from lian.events.handler_template import EventData  # noqa: E402
from lian.lang.lang_analysis import GIRProcessing  # noqa: E402
from lian.util.gir_block import GIRBlockViewer  # noqa: E402

EXCLUDED = ("import_stmt", "from_import_stmt", "export_stmt", "type_alias_decl")
BODY_ATTRS = ("body", "then_body", "else_body", "init_body", "update_body", "methods", "fields")

# token codes
T_ASSIGN, T_VARDECL, T_CALL, T_IMPORT, T_IF, T_METHOD, T_ELSE, T_CLOSE, T_EMPTY_METHOD, T_CLASS, T_GLOBAL = range(11)
NTOK = 11


def build(tokens):
    """tokens -> nested GIR statement list, or None if the token sequence is not well-formed."""
    root = []
    stack = [(root, None, None)]         # (current list, owning stmt content dict, kind)
    for t in tokens:
        cur, owner, kind = stack[-1]
        if t == T_ASSIGN:
            cur.append({"assign_stmt": {"target": "a", "operand": "1", "attrs": []}})
        elif t == T_VARDECL:
            cur.append({"variable_decl": {"name": "v", "attrs": ["let", "x"]}})
        elif t == T_CALL:
            cur.append({"call_stmt": {"target": "%v0", "name": "f", "positional_args": ["x", "y"]}})
        elif t == T_IMPORT:
            cur.append({"import_stmt": {"name": "m"}})
        elif t == T_GLOBAL:
            cur.append({"global_stmt": {"name": "g"}})
        elif t == T_IF:
            content = {"condition": "c", "then_body": []}
            cur.append({"if_stmt": content})
            stack.append((content["then_body"], content, "if"))
        elif t == T_METHOD:
            content = {"name": "m", "body": []}
            cur.append({"method_decl": content})
            stack.append((content["body"], content, "method"))
        elif t == T_CLASS:
            content = {"name": "K", "methods": []}
            cur.append({"class_decl": content})
            stack.append((content["methods"], content, "class"))
        elif t == T_EMPTY_METHOD:
            cur.append({"method_decl": {"name": "e", "body": []}})
        elif t == T_ELSE:
            if kind != "if" or "else_body" in owner or not cur:
                return None
            stack.pop()
            owner["else_body"] = []
            stack.append((owner["else_body"], owner, "if"))
        elif t == T_CLOSE:
            if len(stack) == 1 or not cur:
                return None         # an empty body list is not "GIR format": the frontends never emit an empty body
            stack.pop()
        else:
            return None
        if len(stack) > 4:
            return None
    if len(stack) != 1 or not root:
        return None
    return root


def count_stmts(stmts):
    n = 0
    for s in stmts:
        n += 1
        (op, content), = s.items()
        for k, v in content.items():
            if isinstance(v, list) and v and isinstance(v[0], dict):
                n += count_stmts(v)
    return n


def lower(tokens, start):
    """The real pipeline step: flatten + the GIR_LIST_GENERATED handler add_main_func."""
    stmts = build(tokens)
    if stmts is None:
        return None
    next_id, rows = GIRProcessing(start).flatten(stmts)
    ev = EventData("python", 4, rows)
    ev.out_data = rows
    basic.add_main_func(ev)
    return stmts, next_id, ev.out_data


class _Assoc:
    """Tiny association list compared with ==, so that symbolic ids are never hashed (hashing realises them)."""

    def __init__(self):
        self.items = []

    def __setitem__(self, k, v):
        for it in self.items:
            if it[0] == k:
                it[1] = v
                return
        self.items.append([k, v])

    def __getitem__(self, k):
        for it in self.items:
            if it[0] == k:
                return it[1]
        raise KeyError(k)

    def __contains__(self, k):
        for it in self.items:
            if it[0] == k:
                return True
        return False


def wellformed(stmts, start, next_id, rows):
    """Independent scan of the emitted rows.  Returns None or what is wrong."""
    # 1. ids pairwise distinct except the two markers of one block; all ids in [start, next) or the two %unit_init ids
    seen = []
    stack = []            # open block ids
    owner_of_block = _Assoc()   # block id -> parent_stmt_id of the start marker (no hashing: ids may be symbolic)
    n_exec_top = 0
    main_ids = []
    for r in rows:
        sid, op, parent = r["stmt_id"], r["operation"], r["parent_stmt_id"]
        if not (start <= sid < next_id + 2):
            return f"stmt_id {sid} outside [{start},{next_id}+2)"
        if op == "block_end":
            if not stack or stack[-1] != sid:
                return f"block_end {sid} does not close the innermost open block"
            stack.pop()
            if owner_of_block[sid] != parent:
                return f"markers of block {sid} disagree on the parent"
            continue
        for s in seen:
            if s == sid:
                return f"stmt_id {sid} used twice"
        seen.append(sid)
        if op == "block_start":
            owner_of_block[sid] = parent
            # the owner is the statement emitted just before the blocks of that statement: it must exist already
            found = False
            for s in seen:
                if s == parent:
                    found = True
            if not found:
                return f"block {sid} owned by unknown statement {parent}"
            stack.append(sid)
            continue
        # ordinary statement: parent is the innermost open block, or 0 at top level
        want_parent = stack[-1] if stack else 0
        if parent != want_parent:
            return f"statement {sid} ({op}) has parent {parent}, enclosing block is {want_parent}"
        if not stack and not (op.endswith("_decl") or op in EXCLUDED):
            n_exec_top += 1
    if stack:
        return "unclosed block"
    if n_exec_top:
        return f"{n_exec_top} executable statements left outside every method"
    # 2. body-valued attributes name blocks owned by the statement
    for r in rows:
        for k in BODY_ATTRS:
            if k in r and r[k] is not None:
                b = r[k]
                if b not in owner_of_block:
                    return f"{r['operation']} {r['stmt_id']}.{k} = {b} is not a block"
                if owner_of_block[b] != r["stmt_id"]:
                    return f"block {b} named by {r['stmt_id']}.{k} is owned by {owner_of_block[b]}"
    # 3. top-level executable code is gathered, in order, in exactly one %unit_init
    top_exec = [s for s in stmts if not (list(s)[0].endswith("_decl") or list(s)[0] in EXCLUDED)]
    inits = [r for r in rows if r["operation"] == "method_decl" and r.get("name") == "%unit_init"]
    if top_exec:
        if len(inits) != 1:
            return f"{len(inits)} unit initialisers for {len(top_exec)} top-level executable statements"
        body = inits[0]["body"]
        inside = [r["operation"] for r in rows if r["parent_stmt_id"] == body and r["operation"] not in ("block_start", "block_end")]
        want = [list(s)[0] for s in top_exec]
        if inside != want:
            return f"%unit_init holds {inside}, top-level executable statements are {want}"
        if inits[0]["stmt_id"] < next_id or body < next_id or body == inits[0]["stmt_id"]:
            return "%unit_init ids collide with the ids handed out by flatten"
    elif inits:
        return "a unit initialiser was synthesised without top-level executable code"
    # 4. nothing lost
    n_rows = len([r for r in rows if r["operation"] not in ("block_start", "block_end")])
    if n_rows != count_stmts(stmts) + (1 if top_exec else 0):
        return f"{n_rows} statement rows for {count_stmts(stmts)} statements"
    return None


def _toks(args):
    return list(args[:SLICE.get("len", 5)])


def _pre(args, start):
    toks = _toks(args)
    first = SLICE.get("first")
    alpha = SLICE.get("alphabet")
    for i, t in enumerate(toks):
        if not (0 <= t < NTOK):
            return False
        if alpha is not None and t not in alpha:
            return False
        if first is not None and i < len(first) and t != first[i]:
            return False
    if SLICE.get("concrete_start") is not None:
        return start == SLICE["concrete_start"]
    return start >= 1


def check_flatten(t0: int, t1: int, t2: int, t3: int, t4: int, t5: int, t6: int, t7: int, start: int) -> bool:
    """
    pre: _pre((t0, t1, t2, t3, t4, t5, t6, t7), start)
    post: _
    """
    toks = _toks((t0, t1, t2, t3, t4, t5, t6, t7))
    try:
        out = lower(toks, start)
    except Exception as e:  # noqa
        return fail("flatten", tokens=toks, start=start, why=f"raised {type(e).__name__}: {e}")
    if out is None:
        return True
    stmts, next_id, rows = out
    why = wellformed(stmts, start, next_id, rows)
    if why:
        return fail("flatten", tokens=toks, start=start, why=why)
    return True


def check_flatten_reach(t0: int, t1: int, t2: int, t3: int, t4: int, t5: int, t6: int, t7: int, start: int) -> bool:
    """
    pre: _pre((t0, t1, t2, t3, t4, t5, t6, t7), start)
    post: _
    """
    toks = _toks((t0, t1, t2, t3, t4, t5, t6, t7))
    out = lower(toks, start)
    if out is None:
        return True
    stmts, next_id, rows = out
    return not any(r.get("name") == "%unit_init" for r in rows)


class _Row:
    def __init__(self, d):
        self.__dict__.update(d)


def check_viewer_accepts(t0: int, t1: int, t2: int, t3: int, t4: int, t5: int, t6: int, t7: int, start: int) -> bool:
    """
    pre: _pre((t0, t1, t2, t3, t4, t5, t6, t7), start)
    post: _
    """
    toks = _toks((t0, t1, t2, t3, t4, t5, t6, t7))
    out = lower(toks, start)
    if out is None:
        return True
    stmts, next_id, rows = out
    try:
        v = GIRBlockViewer([_Row(r) for r in rows])
        for r in rows:
            if r["operation"] == "block_start":
                blk = v.read_block(r["stmt_id"])
                if blk is None:
                    return fail("viewer", tokens=toks, start=start, why=f"read_block({r['stmt_id']}) is None")
    except Exception as e:  # noqa
        return fail("viewer", tokens=toks, start=start, why=f"GIRBlockViewer raised {type(e).__name__}: {e}")
    return True


def replay(func, cex):
    toks, start = cex["tokens"], cex["start"]
    try:
        out = lower(toks, start)
        if out is None:
            return {"violated": False, "what": "token sequence is not well-formed"}
        stmts, next_id, rows = out
        why = wellformed(stmts, start, next_id, rows)
        if not why and func == "check_viewer_accepts":
            try:
                GIRBlockViewer([_Row(r) for r in rows])
            except Exception as e:  # noqa
                why = f"GIRBlockViewer raised {type(e).__name__}: {e}"
    except Exception as e:  # noqa
        why = f"raised {type(e).__name__}: {e}"
    return {"violated": bool(why), "observed": why, "what": f"nested GIR tokens={toks} start id={start}: {why}",
            "fingerprint": f"flatten:{toks}"}


# warm-up
assert check_flatten(T_ASSIGN, T_IF, T_CALL, T_CLOSE, T_METHOD, T_VARDECL, T_CALL, T_CLOSE, 11) in (True, False)
