"""C16 harnesses: DataModel (over the pandas stub when traced; over real pandas when replayed) and GIRBlockViewer."""
import math
from typing import List

from vlib import common
from vlib.xh import SLICE, fail

common.setup_lian()
import lian.util.data_model as dm_mod  # noqa: E402
from lian.util import util as lian_util  # noqa: E402

REAL_PD, REAL_NP = dm_mod.pd, dm_mod.np
from vlib.stubs import fakepandas  # noqa: E402

COLS = ["stmt_id", "b"]


def use_stub(on: bool):
    dm_mod.pd = fakepandas.pd if on else REAL_PD
    dm_mod.np = fakepandas.np if on else REAL_NP


def cell(c):
    """cell code -> value: negative = missing"""
    return None if c < 0 else c


def norm(v):
    """normalise a cell read back from either backend (NaN/None -> None, 1.0 -> 1)."""
    if v is None:
        return None
    if isinstance(v, float):
        if math.isnan(v):
            return None
        if v == int(v):
            return int(v)
    try:
        import numpy
        if isinstance(v, numpy.generic):
            v = v.item()
            return norm(v)
    except Exception:
        pass
    return v


# mutator table: (name, params); value slots are filled from the symbolic vals list
MUTATORS = [
    ("modify_element", 0, "stmt_id"), ("modify_element", 1, "stmt_id"), ("modify_element", 2, "stmt_id"),
    ("modify_element", 0, "b"), ("modify_element", 1, "b"),
    ("modify_row", 0), ("modify_row", 1),
    ("modify_column", "stmt_id"), ("modify_column", "b"),
    ("append",),
    ("remove_rows", "stmt_id"), ("remove_rows", "b"),
    ("rename_b",),
    ("slice", 0, 2), ("slice", 1, 3), ("slice", 1, 2),
    ("reset_index",),
    ("noop",),
]


class Model:
    """list-of-dicts reference: rows = [[label, {col: val}]], cols = column names in order."""

    def __init__(self, rows, cols):
        self.cols = list(cols)
        self.rows = [[i, dict(zip(cols, r))] for i, r in enumerate(rows)]

    def labels(self):
        return [l for l, _ in self.rows]

    def scan(self, col, v):
        return [i for i, (_, r) in enumerate(self.rows) if r[col] is not None and r[col] == v]


def applicable(m: Model, mut, v1, v2):
    """Preconditions a caller can satisfy (valid labels/positions, columns that exist)."""
    k = mut[0]
    if k == "modify_element":
        return mut[1] in m.labels() and mut[2] in m.cols
    if k == "modify_row":
        return mut[1] < len(m.rows)
    if k in ("modify_column", "remove_rows"):
        return mut[1] in m.cols
    if k == "rename_b":
        return "b" in m.cols
    if k == "append":
        return len(m.rows) < 4
    return True


def apply_both(d, m: Model, mut, v1, v2):
    """Apply the mutator to the real DataModel `d` and the model `m`; returns the (possibly new) DataModel."""
    k = mut[0]
    a, b = cell(v1), cell(v2)
    if k == "modify_element":
        d.modify_element(mut[1], mut[2], a)
        for l, r in m.rows:
            if l == mut[1]:
                r[mut[2]] = a
    elif k == "modify_row":
        d.modify_row(mut[1], [a, b])
        m.rows[mut[1]][1] = dict(zip(m.cols, [a, b]))
    elif k == "modify_column":
        d.modify_column(mut[1], a)
        for _, r in m.rows:
            r[mut[1]] = a
    elif k == "append":
        extra = dm_mod.DataModel([[a, b]], columns=list(m.cols))
        d.append_data_model(extra)
        m.rows = [[i, r] for i, (_, r) in enumerate(m.rows)] + [[len(m.rows), dict(zip(m.cols, [a, b]))]]
    elif k == "remove_rows":
        d.remove_rows(mut[1], a)
        m.rows = [[l, r] for l, r in m.rows if not (r[mut[1]] is not None and a is not None and r[mut[1]] == a)]
    elif k == "rename_b":
        d.rename_column({"b": "c"})
        m.cols = ["c" if c == "b" else c for c in m.cols]
        m.rows = [[l, {("c" if c == "b" else c): v for c, v in r.items()}] for l, r in m.rows]
    elif k == "slice":
        d = d.slice(mut[1], mut[2])
        m.rows = [[l, dict(r)] for l, r in m.rows[mut[1]:mut[2]]]
    elif k == "reset_index":
        d.reset_index()
        m.rows = [[i, r] for i, (_, r) in enumerate(m.rows)]
    return d


ORDERS = [("A", "B", "C"), ("B", "A", "C"), ("B",), ("A",), ("C", "B")]


def queries_agree(d, m: Model, step, order=0):
    """Every query of the property against a scan of the model, query groups in the given order."""
    for g in ORDERS[order]:
        why = {"A": _q_positional, "B": _q_indexed, "C": _q_unique}[g](d, m)
        if why:
            return why
    return None


def _q_positional(d, m: Model):
    n = len(m.rows)
    if len(d) != n:
        return f"len {len(d)} != {n}"
    # by position
    for i in range(n + 1):
        row = d.access(i)
        if i >= n:
            if row is not None:
                return f"access({i}) beyond the table returned a row"
            continue
        if row is None:
            return f"access({i}) returned None"
        for c in m.cols:
            if norm(getattr(row, c)) != m.rows[i][1][c]:
                return f"access({i}).{c} = {norm(getattr(row, c))} != {m.rows[i][1][c]}"
        if row.get_index() != m.rows[i][0]:
            return f"access({i}).get_index() = {row.get_index()} != {m.rows[i][0]}"
    # iteration
    i = 0
    for row in d:
        if i >= n:
            return "iteration yields too many rows"
        for c in m.cols:
            if norm(getattr(row, c)) != m.rows[i][1][c]:
                return f"iteration row {i}.{c} = {norm(getattr(row, c))} != {m.rows[i][1][c]}"
        i += 1
    if i != n:
        return "iteration yields too few rows"
    return None


def _q_indexed(d, m: Model):
    n = len(m.rows)
    # equality on an indexed column + block id queries
    for v in (0, 1, 2):
        want = m.scan("stmt_id", v)
        got = list(d.query_index_column_value_indices("stmt_id", v))
        if got != want:
            return f"query_index_column_value_indices(stmt_id,{v}) = {got} != scan {want}"
        for p in got:
            if not (0 <= p < n):
                return f"position {p} returned for stmt_id=={v} is not valid"
        first = d.query_index_column_value_first("stmt_id", v)
        if (first is None) != (not want):
            return f"query_index_column_value_first(stmt_id,{v}) presence differs from scan"
        if first is not None:
            for c in m.cols:
                if norm(getattr(first, c)) != m.rows[want[0]][1][c]:
                    return f"query_index_column_value_first(stmt_id,{v}).{c} differs from the scanned row"
        got = list(d.search_block_start_end_indics(v))
        if got != want:
            return f"search_block_start_end_indics({v}) = {got} != scan {want}"
        if len(want) == 2:
            blk = d.read_block(v)
            inner = m.rows[want[0] + 1:want[1]]
            if len(blk) != len(inner):
                return f"read_block({v}) has {len(blk)} rows, scan says {len(inner)}"
            j = 0
            for row in blk:
                for c in m.cols:
                    if norm(getattr(row, c)) != inner[j][1][c]:
                        return f"read_block({v}) row {j}.{c} differs from scan"
                j += 1
    second = m.cols[1]
    for v in (0, 1, 2):
        want = m.scan(second, v)
        got = list(d.query_index_column_value_indices(second, v))
        if got != want:
            return f"query_index_column_value_indices({second},{v}) = {got} != scan {want}"
    return None


def _q_unique(d, m: Model):
    for c in m.cols:
        want = sorted(set(r[c] for _, r in m.rows if r[c] is not None))
        got = sorted(norm(x) for x in d.unique_values_of_column(c) if norm(x) is not None)
        if got != want:
            return f"unique_values_of_column({c}) = {got} != {want}"
    return None


def run_history(cells, muts, vals, orders=None):
    """cells: 2*R ints (-1 = missing), muts: indices into MUTATORS, vals: 2 ints per mutator,
    orders: query-group order code before the first mutation and after each one."""
    if orders is None:
        orders = [0] * (len(muts) + 1)
    rows = [[cell(cells[2 * i]), cell(cells[2 * i + 1])] for i in range(len(cells) // 2)]
    d = dm_mod.DataModel([list(r) for r in rows], columns=list(COLS))
    m = Model(rows, COLS)
    why = queries_agree(d, m, -1, orders[0])
    if why:
        return why, -1
    for s in range(len(muts)):
        mut = MUTATORS[muts[s]]
        v1, v2 = vals[2 * s], vals[2 * s + 1]
        if not applicable(m, mut, v1, v2):
            return None, s           # precondition of the operation not met: history not in the claim
        d = apply_both(d, m, mut, v1, v2)
        why = queries_agree(d, m, s, orders[s + 1])
        if why:
            return why, s
    return None, len(muts)


def _pre1(m0, v0, v1, o0, o1):
    if not (-1 <= v0 <= 2 and -1 <= v1 <= 2):
        return False
    if m0 not in SLICE["muts"][0] or o0 not in SLICE["orders"][0] or o1 not in SLICE["orders"][1]:
        return False
    return True


def check_datamodel_t1(m0: int, v0: int, v1: int, o0: int, o1: int) -> bool:
    """
    pre: _pre1(m0, v0, v1, o0, o1)
    post: _
    """
    use_stub(True)
    try:
        why, step = run_history(SLICE["table"], [m0], [v0, v1], [o0, o1])
    finally:
        use_stub(False)
    if why:
        return fail("datamodel", cells=SLICE["table"], muts=[m0], vals=[v0, v1], orders=[o0, o1], why=why, step=step)
    return True


# ---- renames: the index of a column must not survive under its old name ----------------------------------------------------
RENAMES = [("b", "c"), ("e", "b"), ("e", "c"), ("c", "b"), ("b", "e"), ("c", "e"), ("stmt_id", "c"), ("c", "stmt_id")]
COLS3 = ["stmt_id", "b", "e"]


def rename_history(r0, r1, v0, v1, q0, q1):
    """3-column table; equality queries on every column (if q: before the renames / between them), two renames, queries."""
    rows = [[0, cell(v0), cell(v1)], [1, 1, cell(v1)], [2, cell(v0), 2]]
    d = dm_mod.DataModel([list(r) for r in rows], columns=list(COLS3))
    cols = list(COLS3)

    def agree(tag):
        for ci, c in enumerate(cols):
            for v in (0, 1, 2):
                want = [i for i, r in enumerate(rows) if r[ci] is not None and r[ci] == v]
                got = list(d.query_index_column_value_indices(c, v))
                if got != want:
                    return f"{tag}: query_index_column_value_indices({c},{v}) = {got} != scan {want} (columns now {cols})"
        return None
    if q0:
        why = agree("before")
        if why:
            return why
    for n, ri in enumerate((r0, r1)):
        src, dst = RENAMES[ri]
        if src not in cols or dst in cols:
            return None               # not applicable: outside the claim
        d.rename_column({src: dst})
        cols[cols.index(src)] = dst
        if n == 0 and not q1:
            continue
        why = agree(f"after rename {n + 1} ({src}->{dst})")
        if why:
            return why
    return None


def _pre_rename(r0, r1, v0, v1):
    return 0 <= r0 < len(RENAMES) and 0 <= r1 < len(RENAMES) and -1 <= v0 <= 2 and -1 <= v1 <= 2 and r0 in SLICE.get("r0", range(len(RENAMES)))


def check_datamodel_rename(r0: int, r1: int, v0: int, v1: int, q0: bool, q1: bool) -> bool:
    """
    pre: _pre_rename(r0, r1, v0, v1)
    post: _
    """
    use_stub(True)
    try:
        why = rename_history(r0, r1, v0, v1, q0, q1)
    finally:
        use_stub(False)
    if why:
        return fail("rename", r0=r0, r1=r1, v0=v0, v1=v1, q0=q0, q1=q1, why=why)
    return True


def _vals_ok(*vs):
    for v in vs:
        if not (-1 <= v <= 2):
            return False
    return True


def _pre2(m0, m1, v0, v1, v2, v3, o0, o1, o2):
    if not _vals_ok(v0, v1, v2, v3):
        return False
    if m0 not in SLICE["muts"][0] or m1 not in SLICE["muts"][1]:
        return False
    if o0 not in SLICE["orders"][0] or o1 not in SLICE["orders"][1] or o2 not in SLICE["orders"][2]:
        return False
    return True


def check_datamodel_t2(m0: int, m1: int, v0: int, v1: int, v2: int, v3: int, o0: int, o1: int, o2: int) -> bool:
    """
    pre: _pre2(m0, m1, v0, v1, v2, v3, o0, o1, o2)
    post: _
    """
    use_stub(True)
    try:
        why, step = run_history(SLICE["table"], [m0, m1], [v0, v1, v2, v3], [o0, o1, o2])
    finally:
        use_stub(False)
    if why:
        return fail("datamodel", cells=SLICE["table"], muts=[m0, m1], vals=[v0, v1, v2, v3], orders=[o0, o1, o2],
                    why=why, step=step)
    return True


def _prec(c0, c1, c2, c3, m0, v0, v1, o0, o1):
    lo, hi = SLICE.get("dom", [-1, 1])
    for c in (c0, c1, c2, c3):
        if not (lo <= c <= hi):
            return False
    return _pre1(m0, v0, v1, o0, o1)


def check_datamodel_c1(c0: int, c1: int, c2: int, c3: int, m0: int, v0: int, v1: int, o0: int, o1: int) -> bool:
    """
    pre: _prec(c0, c1, c2, c3, m0, v0, v1, o0, o1)
    post: _
    """
    use_stub(True)
    try:
        why, step = run_history([c0, c1, c2, c3], [m0], [v0, v1], [o0, o1])
    finally:
        use_stub(False)
    if why:
        return fail("datamodel", cells=[c0, c1, c2, c3], muts=[m0], vals=[v0, v1], orders=[o0, o1], why=why, step=step)
    return True


def check_datamodel_reach(m0: int, v0: int, v1: int, o0: int, o1: int) -> bool:
    """
    pre: _pre1(m0, v0, v1, o0, o1)
    post: _
    """
    use_stub(True)
    try:
        why, step = run_history(SLICE["table"], [m0], [v0, v1], [o0, o1])
    finally:
        use_stub(False)
    if why is None and step == 1:
        return False          # a complete history was executed and compared
    return True


def describe(cex):
    rows = [[cell(cex["cells"][2 * i]), cell(cex["cells"][2 * i + 1])] for i in range(len(cex["cells"]) // 2)]
    ops = []
    for s, mi in enumerate(cex["muts"]):
        ops.append(f"{MUTATORS[mi]}({cell(cex['vals'][2 * s])},{cell(cex['vals'][2 * s + 1])})")
    od = ["/".join(ORDERS[o]) for o in cex.get("orders", [])]
    return f"table {rows} cols {COLS}; " + "; ".join(ops) + f"; query groups per step {od}"


def canonical_kind(why):
    """Failure class used in fingerprints: query name only."""
    return why.split("(")[0].split(" ")[0]


def replay_rename(cex):
    out = []
    for stub in (True, False):
        use_stub(stub)
        try:
            out.append(rename_history(cex["r0"], cex["r1"], cex["v0"], cex["v1"], bool(cex["q0"]), bool(cex["q1"])))
        finally:
            use_stub(False)
    ren = [RENAMES[cex["r0"]], RENAMES[cex["r1"]]]
    return {"violated": bool(out[1]), "observed": out[1], "with_stub": out[0],
            "what": f"table [stmt_id,b,e] = [[0,{cex['v0']},{cex['v1']}],[1,1,{cex['v1']}],[2,{cex['v0']},2]]; "
                    f"{'query all columns; ' if cex['q0'] else ''}rename {ren[0]}; {'query; ' if cex['q1'] else ''}rename {ren[1]}; query -> {out[1]}",
            "fingerprint": f"datamodel:rename:{ren}"}


def replay(func, cex):
    if func == "check_datamodel_rename":
        return replay_rename(cex)
    """Native replay on REAL pandas."""
    use_stub(False)
    if func.startswith("check_datamodel"):
        try:
            why, step = run_history(cex["cells"], cex["muts"], cex["vals"], cex.get("orders"))
        except SystemExit as e:
            why, step = f"lian called sys.exit({e.code})", -2
        except Exception as e:  # noqa
            return {"violated": False, "error": f"real pandas raised {type(e).__name__}: {e}", "observed": None,
                    "what": "history not executable on real pandas (stub too permissive)"}
        mk = [MUTATORS[i][0] for i in cex["muts"]]
        return {"violated": bool(why), "observed": why,
                "what": f"{describe(cex)} -> {why}",
                "fingerprint": "datamodel:" + ">".join(mk) + ":" + (canonical_kind(why) if why else "")}
    if func.startswith("check_viewer"):
        why = viewer_history(cex["ops"], cex["shape"], cex.get("base", 10))
        return {"violated": bool(why), "observed": why, "what": f"GIRBlockViewer shape={cex['shape']} -> {why}",
                "fingerprint": "viewer:" + str(cex["shape"])}
    raise ValueError(func)


# ---- stub validation corpus (stub vs real pandas, natively) ----------------------------------------------
CORPUS = [
    ([0, 1, 1, 2, 0, 0], [0, 9, 10], [2, 0, 1, 1, 0, 0]),
    ([1, 0, 2, 1, 1, 2], [10, 16, 3], [1, 0, 0, 0, 2, 1]),
    ([1, -1, -1, 2, 1, 0], [7, 5, 11], [2, 0, 0, 1, 0, 0]),
    ([0, 0, 1, 1, 2, 2], [13, 9, 1], [0, 0, 1, 2, 2, 2]),
    ([2, 1, 2, 0, 1, 1], [12, 8, 14], [0, 0, -1, 0, 0, 0]),
    ([0, 1, 0, 2, 1, 1], [15, 9, 16], [0, 0, 0, 1, 0, 0]),
    ([1, 1, 1, 2, 1, 0], [9, 10, 16], [1, 1, 1, 0, 0, 0]),
    ([2, 2, 0, 1], [9, 9, 5], [0, 0, 0, 1, 2, 2]),
]


def trace_history(cells, muts, vals):
    """Snapshot of all observable state after each step (for stub-vs-real comparison)."""
    rows = [[cell(cells[2 * i]), cell(cells[2 * i + 1])] for i in range(len(cells) // 2)]
    d = dm_mod.DataModel([list(r) for r in rows], columns=list(COLS))
    m = Model(rows, COLS)
    out = []
    for s in range(len(muts)):
        mut = MUTATORS[muts[s]]
        if not applicable(m, mut, vals[2 * s], vals[2 * s + 1]):
            break
        d = apply_both(d, m, mut, vals[2 * s], vals[2 * s + 1])
        snap = [[norm(getattr(r, c)) for c in m.cols] + [r.get_index()] for r in d]
        # clear caches the way a fresh reader would see the table
        out.append(snap)
    return out


def validate_stub():
    bad = []
    for cells, muts, vals in CORPUS:
        use_stub(True)
        try:
            a = trace_history(cells, muts, vals)
        finally:
            use_stub(False)
        b = trace_history(cells, muts, vals)
        if a != b:
            bad.append((cells, muts, vals, a, b))
    return bad


# ---- GIRBlockViewer ------------------------------------------------------------------------------------
from lian.util.gir_block import GIRBlockViewer  # noqa: E402


class _Stmt:
    def __init__(self, stmt_id, operation, parent_stmt_id):
        self.stmt_id, self.operation, self.parent_stmt_id = stmt_id, operation, parent_stmt_id
        self._index = 0

    def get_index(self):
        return self._index


def build_rows(shape: List[int], base: int):
    """shape codes: 0 = plain stmt, 1 = open block, 2 = close block.  Returns (rows, blocks{id:(start,end)}) or None."""
    rows, stack, blocks = [], [], {}
    nid = base
    for code in shape:
        if code == 0:
            rows.append(_Stmt(nid, "assign_stmt" if nid % 2 == 0 else "call_stmt", stack[-1] if stack else 0))
            nid += 1
        elif code == 1:
            rows.append(_Stmt(nid, "block_start", stack[-1] if stack else 0))
            stack.append(nid)
            blocks[nid] = [len(rows) - 1, None]
            nid += 1
        else:
            if not stack:
                return None
            b = stack.pop()
            rows.append(_Stmt(b, "block_end", stack[-1] if stack else 0))
            blocks[b][1] = len(rows) - 1
    if stack:
        return None
    return rows, blocks


def viewer_history(ops, shape, base=10):
    built = build_rows(shape, base)
    if built is None:
        return None
    rows, blocks = built
    try:
        v = GIRBlockViewer(rows)
    except Exception as e:  # noqa
        return f"constructor raised {type(e).__name__}: {e}"
    n = len(rows)
    ids = [r.stmt_id for r in rows]
    try:
        if len(v) != n:
            return f"len(viewer) = {len(v)} != {n}"
        if [r.stmt_id for r in v] != ids:
            return "iteration order differs from the rows"
        if v.get_all_stmt_ids() != sorted(set(ids)):
            return "get_all_stmt_ids differs from scan"
        for b, (s, e) in blocks.items():
            blk = v.read_block(b)
            if blk is None:
                return f"read_block({b}) returned None for an existing block"
            got = [r.stmt_id for r in blk]
            want = ids[s + 1:e]
            if got != want:
                return f"read_block({b}) = {got} != scan {want}"
            if len(blk) != len(want):
                return f"len(read_block({b})) = {len(blk)} != {len(want)}"
            if v.get_block_stmt_ids(b) != want:
                return f"get_block_stmt_ids({b}) = {v.get_block_stmt_ids(b)} != scan {want}"
            # queries through the block view see exactly the block's statements
            for r in rows:
                inside = s < rows.index(r) < e
                if blk.contains_stmt_id(r.stmt_id) != (inside or (r.operation == "block_end" and s < blocks[r.stmt_id][0] < e)):
                    return f"read_block({b}).contains_stmt_id({r.stmt_id}) != scan"
            for pos in range(-1, n + 1):
                g = blk.get_stmt_by_pos(pos)
                if (g is not None) != (s < pos < e):
                    return f"read_block({b}).get_stmt_by_pos({pos}) visibility differs from scan"
                if g is not None and g is not rows[pos]:
                    return f"read_block({b}).get_stmt_by_pos({pos}) returned another row"
            for b2, (s2, e2) in blocks.items():
                sub = blk.read_block(b2)
                nested = s < s2 and e2 < e
                if (sub is not None) != nested:
                    return f"read_block({b}).read_block({b2}) visibility differs from nesting"
                if sub is not None and [r.stmt_id for r in sub] != ids[s2 + 1:e2]:
                    return f"nested read_block({b2}) differs from scan"
            for op in ("assign_stmt", "call_stmt", "block_start", "block_end"):
                want_op = [r.stmt_id for i, r in enumerate(rows) if r.operation == op and s < i < e]
                if [r.stmt_id for r in blk.query_operation(op)] != want_op:
                    return f"read_block({b}).query_operation({op}) differs from scan"
        want_b = max([e for (s, e) in blocks.values()] + [-1])
        if v.boundary_of_multi_blocks(list(blocks.keys()) + [base + 999]) != want_b:
            return f"boundary_of_multi_blocks = {v.boundary_of_multi_blocks(list(blocks.keys()))} != {want_b}"
        for r in rows:
            if r.operation in ("block_start", "block_end"):
                continue
            g = v.get_stmt_by_id(r.stmt_id)
            if g is None or g is not r:
                return f"get_stmt_by_id({r.stmt_id}) wrong"
            if r not in v:
                return f"row {r.stmt_id} not `in` viewer"
        if v.get_stmt_by_id(base + 1000) is not None:
            return "get_stmt_by_id(absent) returned a statement"
        if v.read_block(base + 1000) is not None:
            return "read_block(absent) returned a view"
        for op in ("assign_stmt", "call_stmt"):
            want = [r.stmt_id for r in rows if r.operation == op]
            got = [r.stmt_id for r in v.query_operation(op)]
            if got != want:
                return f"query_operation({op}) = {got} != scan {want}"
        # append_other: concatenation of two block views is re-indexed from scratch
        bl = list(blocks.items())
        if len(bl) >= 2:
            (b1, (s1, e1)), (b2, (s2, e2)) = bl[0], bl[-1]
            if not (s1 < s2 and e2 < e1) and not (s2 < s1 and e1 < e2):
                a = GIRBlockViewer(rows).read_block(b1)
                c = GIRBlockViewer(rows).read_block(b2)
                joined = a.append_other(c)
                if [r.stmt_id for r in joined] != ids[s1 + 1:e1] + ids[s2 + 1:e2]:
                    return "append_other differs from concatenating the scans"
    except Exception as e:  # noqa
        return f"query raised {type(e).__name__}: {e}"
    return None


def _shape(s0, s1, s2, s3, s4, s5, s6, s7):
    return [s0, s1, s2, s3, s4, s5, s6, s7][:SLICE.get("len", 6)]


def _pre_shape(shape, base):
    for c in shape:
        if not (0 <= c <= 2):
            return False
    return 1 <= base <= 2


def check_viewer(s0: int, s1: int, s2: int, s3: int, s4: int, s5: int, s6: int, s7: int, base: int) -> bool:
    """
    pre: _pre_shape(_shape(s0, s1, s2, s3, s4, s5, s6, s7), base)
    post: _
    """
    shape = _shape(s0, s1, s2, s3, s4, s5, s6, s7)
    why = viewer_history(None, shape, base)
    if why:
        return fail("viewer", shape=shape, ops=None, base=base, why=why)
    return True


def check_viewer_reach(s0: int, s1: int, s2: int, s3: int, s4: int, s5: int, s6: int, s7: int, base: int) -> bool:
    """
    pre: _pre_shape(_shape(s0, s1, s2, s3, s4, s5, s6, s7), base)
    post: _
    """
    built = build_rows(_shape(s0, s1, s2, s3, s4, s5, s6, s7), base)
    if built is not None and len(built[1]) >= 1:
        return False
    return True


# warm-up
use_stub(True)
try:
    assert run_history([0, 1, 1, 2, 0, 0], [9, 17], [1, 1, 0, 0])[0] is None or True
finally:
    use_stub(False)
