"""Build Engine T batches: generate programs, run the real lian once, attach its tables to every program."""
import hashlib
import json
import os
import tempfile

from vlib import common, tengine


def build_batch(programs, cmd="lang", tables=(), langs="python", ext=".py", timeout=1800, settings_files=None):
    """Runs lian on all programs (one file each).  Returns (batch dict, run info).  Attaches per program: rows (GIR) and the
    requested extra tables filtered to the program's unit."""
    files = {}
    for p in programs:
        if p.get("modules"):
            # a multi-file program lives in a directory of its own: <name>/main<ext> plus one file per extra module
            p.setdefault("file", f"{p['name']}/main{ext}")
        p.setdefault("file", p["name"] + ext)
        text = p.get("file_src", p["src"])
        h = hashlib.sha256(text.encode())
        for mod, msrc in sorted((p.get("modules") or {}).items()):
            h.update(mod.encode() + b"\0" + msrc.encode())
            files[f"{p['name']}/{mod.replace('.', '/')}{ext}"] = msrc
        p["hash"] = h.hexdigest()[:10]
        if p["file"] in files and files[p["file"]] != text:
            raise ValueError(f"two different programs of one batch are named {p['file']}")
        files[p["file"]] = text
    run = tengine.run_lian(files, cmd=cmd, langs=langs, timeout=timeout, settings_files=settings_files)
    info = dict(rc=run.rc, wall_s=round(run.wall, 1), log_tail=run.log[-1500:], cmd=cmd)
    try:
        units = run.units()
        gir = run.gir()
        extra = {t: (run.taint_flows() if pat == "@taint_flows" else run.table(pat)) for t, pat in tables}
        for p in programs:
            uid = units.get("in/" + p["file"])
            p["unit_id"] = uid
            p["rows"] = tengine.jsonable_rows(gir.get(uid, [])) if uid is not None else []
            ids = {r["stmt_id"] for r in p["rows"]}
            p["extra_rows"] = {}
            for mod in (p.get("modules") or {}):
                muid = units.get(f"in/{p['name']}/{mod.replace('.', '/')}{ext}")
                p["extra_rows"][mod.split(".")[-1]] = tengine.jsonable_rows(gir.get(muid, [])) if muid is not None else []
                ids |= {r["stmt_id"] for r in p["extra_rows"][mod.split(".")[-1]]}
            for t in extra:
                if t == "flows":
                    p[t] = [dict(source_stmt_id=int(r["source_stmt_id"]), sink_stmt_id=int(r["sink_stmt_id"]))
                            for r in extra[t] if int(r["source_stmt_id"]) in ids or int(r["sink_stmt_id"]) in ids]
                elif t == "callpaths":
                    keep = []
                    for r in extra[t]:
                        path = r.get("call_path")
                        path = path.tolist() if hasattr(path, "tolist") else path
                        path = [[int(x) for x in site] for site in (path or [])]
                        if path and path[0][0] in ids:
                            keep.append({"call_path": path})
                    p[t] = keep
                else:
                    p[t] = tengine.jsonable_rows([r for r in extra[t] if _belongs(r, uid, ids)])
    finally:
        run.cleanup()
    return {"programs": programs}, info


def _belongs(r, uid, ids):
    if "unit_id" in r and r["unit_id"] == uid:
        return True
    for k in ("stmt_id", "src_stmt_id", "method_id"):
        if k in r and r[k] in ids:
            return True
    return False


def save_batch(batch):
    fd, path = tempfile.mkstemp(prefix=f"lian-verif-batch-{os.getpid()}-", suffix=".json")
    with os.fdopen(fd, "w") as f:
        json.dump(batch, f)
    return path
