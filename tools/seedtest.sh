#!/bin/bash
# tools/seedtest.sh <seed-dir> <PID> [tier]   -- apply seed patch to /repo, run demo + check, always revert
SD="$1"; PID="$2"; TIER="${3:-quick}"
cd /repo || exit 2
if ! git diff --quiet; then echo "repo dirty"; exit 2; fi
/venv/bin/python "$SD/demo.py" /repo/src >/dev/null 2>&1; echo "demo on clean tree: exit $?"
git apply "$SD/patch.diff" || { echo "patch does not apply"; exit 2; }
/venv/bin/python "$SD/demo.py" /repo/src >/dev/null 2>&1; echo "demo on patched tree: exit $?"
( cd /verif && export VERIF_EVIDENCE_DIR=/tmp/seedtest-evidence VERIF_REPLAY_DIR=/tmp/seedtest-replays && ./vcheck "$PID" --tier "$TIER" > /tmp/seedtest.out 2>&1; echo "check exit $?"; grep -E "^VIOLATION|^  obligation|^HARNESS|^SUMMARY" /tmp/seedtest.out | head -6 )
git checkout -- . ; git status --short | head -3
