#!/bin/bash
# tools/run_thorough.sh ID...   -- runs the thorough tier of each listed check in sequence, evidence redirected
export VERIF_EVIDENCE_DIR=${VERIF_EVIDENCE_DIR:-/tmp/thorough-evidence} VERIF_REPLAY_DIR=${VERIF_REPLAY_DIR:-/tmp/thorough-replays}
mkdir -p "$VERIF_EVIDENCE_DIR"
for id in "$@"; do
  t0=$(date +%s)
  timeout ${THOROUGH_TIMEOUT:-5400} ./vcheck "$id" --tier thorough > "/tmp/thorough-$id.log" 2>&1
  rc=$?
  echo "$id rc=$rc $(( $(date +%s) - t0 ))s $(grep SUMMARY /tmp/thorough-$id.log | tail -1)"
done
