#!/bin/bash
# tools/seedtest2.sh <seed-dir> <PID> [tier] [demo-arg: root|src]
# Like seedtest.sh, but never touches /repo: the patch is applied to a scratch worktree and the check runs with VERIF_REPO on it.
SD="$1"; PID="$2"; TIER="${3:-quick}"; ARG="${4:-root}"
W=/tmp/seedrepo-$$
git -C /repo worktree add --detach "$W" HEAD -q || exit 2
trap 'git -C /repo worktree remove --force "$W"; git -C /repo worktree prune' EXIT
A="$W"; [ "$ARG" = src ] && A="$W/src"
/venv/bin/python "$SD/demo.py" "$A" >/dev/null 2>&1; echo "demo on clean tree: exit $?"
( cd "$W" && git apply "$SD/patch.diff" ) || ( cd "$W" && git apply -3 "$SD/patch.diff" ) || { echo "patch does not apply"; exit 2; }
/venv/bin/python "$SD/demo.py" "$A" >/dev/null 2>&1; echo "demo on patched tree: exit $?"
( cd /verif && export VERIF_REPO="$W" VERIF_EVIDENCE_DIR=/tmp/seedtest-evidence-$$ VERIF_REPLAY_DIR=/tmp/seedtest-replays-$$ && ./vcheck "$PID" --tier "$TIER" > /tmp/seedtest-$$.out 2>&1; echo "check exit $?"; grep -E "^VIOLATION|^  obligation|^HARNESS|^SUMMARY" /tmp/seedtest-$$.out | cut -c1-400 | head -8 )
rm -rf /tmp/seedtest-evidence-$$ /tmp/seedtest-replays-$$ /tmp/seedtest-$$.out
