#!/usr/bin/env python3
"""tools/import_seed.py <seed-dir> <seed-id> <property> <caught_by> <what-ran>"""
import json, os, shutil, sys
sd, sid, prop, caught, ran = sys.argv[1:6]
dst = os.path.join("/verif/seeded", sid)
os.makedirs(dst, exist_ok=True)
shutil.copy(os.path.join(sd, "patch.diff"), dst)
shutil.copy(os.path.join(sd, "demo.py"), dst)
note = open(os.path.join(sd, "note.txt")).read().strip() if os.path.exists(os.path.join(sd, "note.txt")) else ""
json.dump({"id": sid, "property": prop, "needs_to_manifest": note,
           "confirmed": "demo.py exits 0 on the unchanged tree and 1 with patch.diff applied (run by tools/seedtest.sh)",
           "caught_by": caught, "what_was_run": ran,
           "origin": "independent sub-agent given only the property text and a scratch worktree"},
          open(os.path.join(dst, "meta.json"), "w"), indent=1)
print("imported", dst)
